"""RTC driver for C10 - interval slicing partitions the data (bounded stand-in, never counted as proved).

Clauses of the property, each evaluated on the real `slice_` of the three slicers:

partition   before small intervals are dropped (slicer built with min_n_points=0, min_n_intervals=0) every
            observation inside the covered value range is in exactly one mask; NO observation is in two;
            observations clearly outside the range are in none; the maximum is covered with include_max.
aligned     masks are boolean, one entry per input position, and refer to input positions: for the two
            width-based slicers slicing a re-ordered copy gives the re-ordered masks; for
            PointsPerIntervalSlicer the values selected by mask j are exactly the j-th chunk of sorted(data)
            (a statement about value multisets, independent of how argsort breaks ties).
boundaries  lower_j <= member <= upper_j and upper_j <= lower_{j+1} (reported boundaries are floats derived by
            an algebraically equal but differently rounded expression -> compared with 1e-12 relative slack;
            membership itself - partition - is exact, no tolerance is possible there).
references  centre / left / right of the reported boundaries (1e-12 relative), callable(data[mask]) exactly.
drop        the result with min_n_points=m is exactly the sub-sequence of the undropped result whose masks
            have >= m members (order kept, references/boundaries kept with their masks).
min_n       RuntimeError iff fewer than min_n_intervals intervals remain; no other exception.

Covered range (read off the documented semantics, nothing more):
  Width : [lo, hi] with lo = value_range[0] or 0, hi = value_range[1] or max(data); right_open=False does
          not cover lo itself (half-open by design) -> only "<= 1" is demanded for it; values above hi may or
          may not fall in the overshoot interval -> only "<= 1"; values below lo -> 0.
  Number: [lo, hi) plus hi iff include_max, lo/hi = value_range or min/max(data); outside -> 0.
  Points: every observation.

Case ids are `<slicer>/<clause>/<class>` with class = ro0|ro1 (right_open), im0|im1 (include_max),
sorted|unsorted (PointsPer input order); they contain neither data nor widths nor seeds. Every id that fails on the
seeded long vectors also fails in the exhaustive, seed-independent part (same membership function, enumerated over
all (value, max) pairs resp. (min, value, max) triples), so the set of failing ids does not depend on the seed.
"""

import itertools
import os
from concurrent.futures import ProcessPoolExecutor

import numpy as np

from virocon import (
    NumberOfIntervalsSlicer,
    PointsPerIntervalSlicer,
    WidthOfIntervalSlicer,
)

from vf.rt._common_C import Recorder, jsonable, last_line, replay_with

REFS = {"median": np.median, "mean": np.mean, "min": np.min, "max": np.max}
WIDTHS = [0.1, 0.3, 0.5, 0.7, 1, 2]
RTOL = 1e-12


# ----------------------------------------------------------------------------------------------
# scenario -> objects
# ----------------------------------------------------------------------------------------------
def _data_of(inputs):
    if "data" in inputs:
        return np.array(inputs["data"], dtype=float)
    g = inputs["data_gen"]
    rng = np.random.default_rng(g["seed"])
    n = g["n"]
    kind = g["kind"]
    if kind == "rounded":  # metocean-like: Weibull sample rounded to `decimals`
        d = np.round(g["scale"] * rng.weibull(g.get("shape", 1.5), n), g["decimals"])
    elif kind == "lattice":  # k * step written as decimal literals, heavy ties
        k = rng.integers(0, g["kmax"] + 1, n)
        d = np.round(k * g["step"], 10)
    elif kind == "continuous":
        d = g["scale"] * rng.weibull(g.get("shape", 1.5), n)
    else:
        raise ValueError(kind)
    order = g.get("order", "shuffled")
    if order == "sorted":
        d = np.sort(d)
    elif order == "reversed":
        d = np.sort(d)[::-1].copy()
    elif order == "blocks":  # time-ordered look: sorted blocks
        d = np.concatenate([np.sort(b) for b in np.array_split(d, 7)])
    return d


def _reference(name):
    return REFS[name] if name in REFS else name


def _make(inputs, min_n_points, min_n_intervals):
    s = inputs["slicer"]
    kw = {}
    if min_n_points is not None:
        kw["min_n_points"] = min_n_points
    if min_n_intervals is not None:
        kw["min_n_intervals"] = min_n_intervals
    ref = _reference(inputs.get("reference", "center" if s != "points" else "median"))
    vr = inputs.get("value_range")
    vr = None if vr is None else tuple(vr)
    if s == "width":
        return WidthOfIntervalSlicer(
            inputs["width"], reference=ref, right_open=inputs.get("right_open", True), value_range=vr, **kw
        )
    if s == "number":
        return NumberOfIntervalsSlicer(
            inputs["n_intervals"], reference=ref, include_max=inputs.get("include_max", True), value_range=vr, **kw
        )
    if s == "points":
        return PointsPerIntervalSlicer(inputs["n_points"], reference=ref, last_full=inputs.get("last_full", True), **kw)
    raise ValueError(s)


def _cfg(inputs):
    s = inputs["slicer"]
    if s == "width":
        return f"ro{int(bool(inputs.get('right_open', True)))}"
    if s == "number":
        return f"im{int(bool(inputs.get('include_max', True)))}"
    d = _data_of(inputs)
    is_sorted = bool(np.all(np.diff(d) >= 0))
    return "sorted" if is_sorted else "unsorted"


def _describe(inputs):
    s = inputs["slicer"]
    if s == "width":
        return f"width={inputs['width']} right_open={inputs.get('right_open', True)} value_range={inputs.get('value_range')}"
    if s == "number":
        return f"n_intervals={inputs['n_intervals']} include_max={inputs.get('include_max', True)} value_range={inputs.get('value_range')}"
    return f"n_points={inputs['n_points']} last_full={inputs.get('last_full', True)}"


def _tol(*vals):
    m = 1.0
    for v in vals:
        m = max(m, abs(float(v)))
    return RTOL * m


# ----------------------------------------------------------------------------------------------
# the clauses
# ----------------------------------------------------------------------------------------------
def evaluate(inputs):
    s = inputs["slicer"]
    data = _data_of(inputs)
    cfg = _cfg(inputs)
    n = len(data)
    checks = []

    def add(clause_id, clause, ok, detail=""):
        checks.append((f"{s}/{clause_id}/{cfg}", clause, bool(ok), detail))

    if s == "points" and inputs["n_points"] > n:
        return _points_too_few(inputs, data)

    # ---- undropped slicing ---------------------------------------------------------------------
    try:
        masks0, refs0, bnds0 = _make(inputs, 0, 0).slice_(data)
    except Exception as e:  # the call must succeed: nothing is dropped, no interval minimum
        add("exception", "slice_ must return for every data vector and configuration", False, last_line(e))
        return checks
    masks0 = [np.asarray(m) for m in masks0]
    k0 = len(masks0)
    M = np.array(masks0, dtype=bool).reshape(k0, n) if k0 else np.zeros((0, n), bool)
    cnt = M.sum(axis=0)

    # partition
    if s == "width":
        vr = inputs.get("value_range")
        lo = 0 if vr is None or vr[0] is None else vr[0]
        hi = float(np.max(data)) if vr is None or vr[1] is None else vr[1]
        if inputs.get("right_open", True):
            must1 = (data >= lo) & (data <= hi)
        else:
            must1 = (data > lo) & (data <= hi)
        must0 = data < lo - _tol(lo)
    elif s == "number":
        vr = inputs.get("value_range")
        lo, hi = (float(np.min(data)), float(np.max(data))) if vr is None else (vr[0], vr[1])
        must1 = (data >= lo) & (data < hi)
        if inputs.get("include_max", True):
            must1 = must1 | (data == hi)
        must0 = (data < lo - _tol(lo, hi)) | (data > hi + _tol(lo, hi))
    else:
        must1 = np.ones(n, bool)
        must0 = np.zeros(n, bool)
    bad = np.flatnonzero((cnt > 1) | (must1 & (cnt != 1)) | (must0 & (cnt != 0)))
    det = ""
    if len(bad):
        j = bad[0]
        det = (
            f"{_describe(inputs)}: value {float(data[j])!r} (position {j}) is in {int(cnt[j])} intervals, expected "
            f"{'exactly 1' if must1[j] else ('0' if must0[j] else '<= 1')}; "
            f"{len(bad)} of {n} observations affected; data[:8]={data[:8].tolist()}"
        )
    add("partition", "each observation inside the covered range belongs to exactly one interval (never two, never none)", len(bad) == 0, det)

    # aligned
    ok = all(m.dtype == bool and m.shape == (n,) for m in masks0)
    det = "" if ok else "masks are not boolean arrays of len(data)"
    if ok and s in ("width", "number"):
        for perm in (np.arange(n)[::-1], np.roll(np.arange(n), 1)):
            try:
                mp, _, _ = _make(inputs, 0, 0).slice_(data[perm].copy())
                Mp = np.array(mp, dtype=bool).reshape(len(mp), n)
                if Mp.shape != M.shape or not np.array_equal(Mp, M[:, perm]):
                    ok, det = False, f"slicing data[perm] does not give masks[perm] (perm={perm[:8].tolist()})"
                    break
            except Exception as e:
                ok, det = False, "re-ordered copy: " + last_line(e)
                break
    elif ok:
        srt = np.sort(data)
        npts = inputs["n_points"]
        rem = n % npts
        if rem == 0:
            cuts = list(range(0, n + 1, npts))
        elif inputs.get("last_full", True):
            cuts = [0] + list(range(rem, n + 1, npts))
        else:
            cuts = list(range(0, n - rem + 1, npts)) + [n]
        if len(cuts) - 1 != k0:
            ok, det = False, f"{k0} intervals, expected {len(cuts) - 1}"
        else:
            for j in range(k0):
                got = np.sort(data[masks0[j]])
                exp = srt[cuts[j] : cuts[j + 1]]
                if got.shape != exp.shape or not np.array_equal(got, exp):
                    ok = False
                    det = (
                        f"mask {j} selects values {got[:6].tolist()} but the {j}-th chunk of sorted(data) is "
                        f"{exp[:6].tolist()} (masks not in input-position space); data[:8]={data[:8].tolist()}"
                    )
                    break
    add("aligned", "the returned masks are aligned with the input positions", ok, det)

    # boundaries
    ok, det = len(bnds0) == k0, ""
    if not ok:
        det = f"{len(bnds0)} boundaries for {k0} masks"
    else:
        for j in range(k0):
            lo_j, hi_j = float(bnds0[j][0]), float(bnds0[j][1])
            t = _tol(lo_j, hi_j)
            mem = data[masks0[j]]
            if len(mem) and (mem.min() < lo_j - t or mem.max() > hi_j + t):
                ok, det = False, f"interval {j} reported as ({lo_j!r}, {hi_j!r}) has members in [{mem.min()!r}, {mem.max()!r}]"
                break
            if j + 1 < k0 and hi_j > float(bnds0[j + 1][0]) + t:
                ok, det = False, f"interval {j} upper {hi_j!r} > interval {j + 1} lower {float(bnds0[j + 1][0])!r}"
                break
    add("boundaries", "reported boundaries contain their interval's members and do not overlap", ok, det)

    # references
    refname = inputs.get("reference", "center" if s != "points" else "median")
    ok, det = len(refs0) == k0, ""
    if not ok:
        det = f"{len(refs0)} references for {k0} masks"
    else:
        for j in range(k0):
            lo_j, hi_j = float(bnds0[j][0]), float(bnds0[j][1])
            if refname in REFS:
                mem = data[masks0[j]]
                if len(mem) == 0:
                    continue  # callable on an empty interval: nan/exception territory, nothing is demanded
                exp = float(REFS[refname](mem))
                good = float(refs0[j]) == exp
            else:
                exp = {"center": (lo_j + hi_j) / 2, "left": lo_j, "right": hi_j}[refname.lower()]
                good = abs(float(refs0[j]) - exp) <= _tol(lo_j, hi_j)
            if not good:
                ok, det = False, f"reference of interval {j} is {float(refs0[j])!r}, configured '{refname}' gives {exp!r}"
                break
    add("references", "reference values are the configured centre/left/right/callable", ok, det)

    # drop + min_n_intervals
    m_pts = inputs.get("min_n_points")
    m_int = inputs.get("min_n_intervals")
    if m_pts is not None or m_int is not None:
        eff_pts = 50 if m_pts is None else m_pts
        eff_int = 3 if m_int is None else m_int
        if s == "points":
            eff_pts = min(eff_pts, inputs["n_points"])
        if s == "number":
            eff_int = min(eff_int, inputs["n_intervals"])
        sizes = M.sum(axis=1)
        keep = [j for j in range(k0) if sizes[j] >= eff_pts]
        expect_raise = len(keep) < eff_int
        raised = None
        try:
            masks1, refs1, bnds1 = _make(inputs, m_pts, m_int).slice_(data)
        except RuntimeError as e:
            raised = e
        except Exception as e:
            add("exception", "slice_ raises RuntimeError (and nothing else) when too few intervals remain", False, last_line(e))
            return checks
        add(
            "min_n",
            "a RuntimeError is raised iff fewer than min_n_intervals remain",
            (raised is not None) == expect_raise,
            f"{len(keep)} intervals with >= {eff_pts} points, min_n_intervals={eff_int}: "
            f"{'RuntimeError' if raised is not None else 'no error'}, expected {'RuntimeError' if expect_raise else 'no error'}",
        )
        if raised is None:
            ok = len(masks1) == len(keep) and all(np.array_equal(np.asarray(masks1[i]), masks0[j]) for i, j in enumerate(keep))
            det = "" if ok else f"kept {len(masks1)} intervals, expected the {len(keep)} undropped ones with >= {eff_pts} members (sizes {sizes.tolist()[:12]})"
            if ok and s != "points":  # PointsPer recomputes its boundaries after dropping (by design)
                for i, j in enumerate(keep):
                    if tuple(map(float, bnds1[i])) != tuple(map(float, bnds0[j])):
                        ok, det = False, f"boundary of kept interval {i} is not the one of undropped interval {j}"
                        break
            if ok:
                for i, j in enumerate(keep):
                    a, b = float(refs1[i]), float(refs0[j])
                    if not (a == b or (np.isnan(a) and np.isnan(b))):
                        ok, det = False, f"reference of kept interval {i} ({a!r}) is not the one of undropped interval {j} ({b!r})"
                        break
            add("drop", "exactly the intervals with fewer than min_n_points observations are dropped", ok, det)
    return checks


def _points_too_few(inputs, data):
    """n_points > len(data): one short interval exists before dropping; it is kept iff it has >= min(min_n_points,
    n_points) members; RuntimeError iff fewer than min_n_intervals remain; nothing else may be raised."""
    m_pts = inputs.get("min_n_points")
    m_int = inputs.get("min_n_intervals")
    eff_pts = min(50 if m_pts is None else m_pts, inputs["n_points"])
    eff_int = 3 if m_int is None else m_int
    kept = 1 if len(data) >= eff_pts else 0
    expect_raise = kept < eff_int
    case = "points/n_points_gt_len/any"
    clause = "a RuntimeError is raised if fewer than min_n_intervals remain (else every observation is in exactly one interval)"
    try:
        masks, refs, bnds = _make(inputs, m_pts, m_int).slice_(data)
    except RuntimeError:
        return [(case, clause, expect_raise, "RuntimeError" + ("" if expect_raise else " although one interval with enough points remains"))]
    except Exception as e:
        return [(case, clause, False, f"n_points={inputs['n_points']} > len(data)={len(data)}: {last_line(e)} instead of "
                 f"{'RuntimeError' if expect_raise else 'one interval holding all observations'}")]
    ok = (not expect_raise) and len(masks) == 1 and bool(np.all(masks[0])) and len(masks[0]) == len(data)
    return [(case, clause, ok, f"returned {len(masks)} intervals; expected {'RuntimeError' if expect_raise else 'one interval with all points'}")]


def replay(doc):
    return replay_with(evaluate, doc)


# ----------------------------------------------------------------------------------------------
# scenario generators
# ----------------------------------------------------------------------------------------------
def _lat(step, kmax):
    """decimal literals k*step/2, k=0..kmax - what data rounded to a decimal grid look like."""
    return [round(k * step / 2, 10) for k in range(kmax + 1)]


_REF_CYCLE = ["center", "left", "right", "median", "mean"]
_PTS_CYCLE = [1, 2, None, 3]
_INT_CYCLE = [1, 2, 3, None]


def _opt(i, inputs):
    """cycle the options that do not influence membership deterministically over the enumeration index."""
    inputs["reference"] = _REF_CYCLE[i % 5]
    inputs["min_n_points"] = _PTS_CYCLE[(i // 5) % 4]
    inputs["min_n_intervals"] = _INT_CYCLE[(i // 3) % 4]
    return inputs


def _vectors(values, max_len):
    for L in range(1, max_len + 1):
        for v in itertools.product(values, repeat=L):
            yield list(v)


def gen_width_exhaustive(max_len, widths=WIDTHS):
    i = 0
    for w in widths:
        lat = _lat(w, 8)
        for v in _vectors(lat, max_len):
            for ro in (True, False):
                i += 1
                yield _opt(i, {"slicer": "width", "width": w, "right_open": ro, "value_range": None, "data": v})


def gen_width_pairs(kmax, widths=WIDTHS):
    """membership of the Width slicer is a function of (value, max(data)) only: all pairs over a long lattice."""
    i = 0
    for w in widths:
        lat = _lat(w, kmax)
        for a in range(len(lat)):
            for b in range(a, len(lat)):
                for ro in (True, False):
                    i += 1
                    d = [lat[a], lat[b]] if i % 2 else [lat[b], lat[a]]
                    yield _opt(i, {"slicer": "width", "width": w, "right_open": ro, "value_range": None, "data": d})


def gen_width_ranges(max_len, widths=WIDTHS):
    i = 0
    for w in widths:
        lat = _lat(w, 8)
        ranges = [(None, lat[7]), (lat[1], None), (lat[2], lat[7]), (lat[2], None), (0, lat[8]), (None, lat[4])]
        for v in _vectors(lat, max_len):
            for vr in ranges:
                for ro in (True, False):
                    i += 1
                    yield _opt(i, {"slicer": "width", "width": w, "right_open": ro, "value_range": list(vr), "data": v})


N_INTERVALS = [1, 2, 3, 4, 5, 7, 10]


def gen_number_exhaustive(max_len, kmax=8, steps=WIDTHS, ns=N_INTERVALS):
    i = 0
    for st in steps:
        lat = _lat(st, kmax)
        for v in _vectors(lat, max_len):
            for nint in ns:
                for im in (True, False):
                    i += 1
                    yield _opt(i, {"slicer": "number", "n_intervals": nint, "include_max": im, "value_range": None, "data": v})


def gen_number_triples(kmax, steps=WIDTHS, ns=N_INTERVALS):
    """membership of the Number slicer is a function of (value, min, max): all sorted triples over a long lattice
    (presented in rotating order)."""
    i = 0
    for st in steps:
        lat = _lat(st, kmax)
        for a in range(len(lat)):
            for c in range(a + 1, len(lat)):
                for b in range(a, c + 1):
                    tri = [lat[a], lat[b], lat[c]]
                    for nint in ns:
                        i += 1
                        d = tri[i % 3 :] + tri[: i % 3]
                        yield _opt(i, {"slicer": "number", "n_intervals": nint, "include_max": bool(i % 2), "value_range": None, "data": d})


def gen_number_ranges(max_len, steps=WIDTHS, ns=(1, 3, 7, 10)):
    i = 0
    for st in steps:
        lat = _lat(st, 8)
        ranges = [(0, lat[8]), (lat[1], lat[7]), (lat[2], lat[5]), (0, lat[6])]
        for v in _vectors(lat, max_len):
            for vr in ranges:
                for nint in ns:
                    for im in (True, False):
                        i += 1
                        yield _opt(i, {"slicer": "number", "n_intervals": nint, "include_max": im, "value_range": list(vr), "data": v})


_PREF_CYCLE = ["median", "mean", "min", "max"]


def gen_points_exhaustive(max_len, n_values):
    lat = _lat(1, n_values - 1)
    i = 0
    for v in _vectors(lat, max_len):
        for npts in range(1, len(v) + 1):
            for lf in (True, False):
                i += 1
                yield {
                    "slicer": "points", "n_points": npts, "last_full": lf, "reference": _PREF_CYCLE[i % 4],
                    "min_n_points": [None, 1, 2, 3][(i // 4) % 4], "min_n_intervals": _INT_CYCLE[(i // 3) % 4], "data": v,
                }


def gen_points_too_few():
    i = 0
    for v in ([1.0], [2.0, 1.0], [0.5, 0.5, 1.5], [3.0, 1.0, 2.0, 0.0, 4.0]):
        for npts in (len(v) + 1, 50):
            for m_int in (None, 1, 2):
                for m_pts in (None, 1, len(v) + 1):
                    i += 1
                    yield {"slicer": "points", "n_points": npts, "last_full": bool(i % 2), "reference": "median",
                           "min_n_points": m_pts, "min_n_intervals": m_int, "data": v}


def gen_random(rng, count, max_n):
    """long vectors: ties, rounded values, arbitrary order, value_range settings. All values are decimal literals on
    the lattices already enumerated pairwise/triple-wise above, or continuous (no edge hits)."""
    orders = ["shuffled", "sorted", "reversed", "blocks"]
    for i in range(count):
        n = int(rng.integers(300, max_n + 1))
        seed = int(rng.integers(0, 2**31))
        order = orders[i % 4]
        kind = i % 3
        if kind == 0:
            w = WIDTHS[int(rng.integers(0, len(WIDTHS)))]
            gen = {"kind": "lattice", "step": w / 2, "kmax": 40, "n": n, "seed": seed, "order": order}
        elif kind == 1:
            w = [0.1, 0.5, 1][int(rng.integers(0, 3))]
            # rounded to 0.1 and clipped into the pairwise-enumerated lattice of width 0.1 (k*0.05, k<=40 -> <= 2.0)
            gen = {"kind": "rounded", "scale": 0.7 if w == 0.1 else 3.0, "decimals": 1, "n": n, "seed": seed, "order": order}
        else:
            w = WIDTHS[int(rng.integers(0, len(WIDTHS)))]
            gen = {"kind": "continuous", "scale": 4 * w, "n": n, "seed": seed, "order": order}
        mp = [None, 1, 20, 50][int(rng.integers(0, 4))]
        mi = [None, 1, 3, 6][int(rng.integers(0, 4))]
        yield {"slicer": "width", "width": w, "right_open": bool(rng.integers(0, 2)), "reference": _REF_CYCLE[i % 5],
               "value_range": [None, None, [None, 10 * w], [w, None], [w / 2, 12 * w]][int(rng.integers(0, 5))],
               "min_n_points": mp, "min_n_intervals": mi, "data_gen": gen}
        yield {"slicer": "number", "n_intervals": N_INTERVALS[int(rng.integers(0, len(N_INTERVALS)))],
               "include_max": bool(rng.integers(0, 2)), "reference": _REF_CYCLE[(i + 2) % 5],
               "value_range": [None, None, [0, 20 * w], [w, 9 * w]][int(rng.integers(0, 4))],
               "min_n_points": mp, "min_n_intervals": mi, "data_gen": gen}
        yield {"slicer": "points", "n_points": int(rng.integers(20, max(21, n // 3))), "last_full": bool(rng.integers(0, 2)),
               "reference": _PREF_CYCLE[i % 4], "min_n_points": mp, "min_n_intervals": [None, 1, 3][int(rng.integers(0, 3))],
               "data_gen": gen}


# fixed, seed-independent anchors (the concrete inputs named in DESIGN.md)
ANCHORS = [
    {"slicer": "width", "width": 0.1, "right_open": True, "reference": "center", "value_range": None,
     "min_n_points": 1, "min_n_intervals": 1, "data": [0.3, 0.8, 1.0]},
    {"slicer": "width", "width": 0.5, "right_open": True, "reference": "center", "value_range": None,
     "min_n_points": 1, "min_n_intervals": 1, "data": [0.0, 0.5, 0.75, 1.0, 2.0]},
    {"slicer": "number", "n_intervals": 7, "include_max": True, "reference": "center", "value_range": None,
     "min_n_points": 1, "min_n_intervals": 1, "data": [0.0, 2.1, 4.2]},
    {"slicer": "number", "n_intervals": 4, "include_max": True, "reference": "left", "value_range": None,
     "min_n_points": 1, "min_n_intervals": 1, "data": [0.0, 1.0, 2.0, 3.0, 4.0]},
    {"slicer": "points", "n_points": 2, "last_full": True, "reference": "median",
     "min_n_points": 1, "min_n_intervals": 1, "data": [3.0, 1.0, 2.0, 0.0]},
    {"slicer": "points", "n_points": 2, "last_full": True, "reference": "median",
     "min_n_points": 1, "min_n_intervals": 1, "data": [0.0, 1.0, 2.0, 3.0]},
]


# ----------------------------------------------------------------------------------------------
# run
# ----------------------------------------------------------------------------------------------
def _key(inputs):
    d = inputs.get("data")
    dk = tuple(d) if d is not None else tuple(sorted(inputs["data_gen"].items()))
    return (inputs["slicer"], inputs.get("width"), inputs.get("n_intervals"), inputs.get("n_points"),
            inputs.get("right_open"), inputs.get("include_max"), inputs.get("last_full"),
            None if inputs.get("value_range") is None else tuple(inputs["value_range"]), dk)


def _nontrivial(inputs):
    d = inputs.get("data")
    if d is None:
        return True
    return len(set(d)) >= 1 and (max(d) > 0)


def _chunk_eval(chunk):
    """worker: evaluate a chunk of (pairwise distinct) scenarios, return an aggregate."""
    n_evals = n_distinct = 0
    fails = {}
    sample = None
    for inp in chunk:
        checks = evaluate(inp)
        n_evals += len(checks)
        if checks and _nontrivial(inp):
            n_distinct += 1
        if sample is None:
            sample = {"inputs": inp, "checks": [{"case": c, "clause": cl, "ok": bool(ok), "detail": d[:160]} for c, cl, ok, d in checks[:6]]}
        for case, clause, ok, detail in checks:
            if not ok:
                if case in fails:
                    fails[case][3] += 1
                else:
                    fails[case] = [clause, detail, inp, 1]
    return n_evals, n_distinct, {k: tuple(v) for k, v in fails.items()}, sample


def _consume(rec, gen, pool=None, chunk=4000, max_inflight=24):
    """generators used with a pool enumerate pairwise distinct scenarios (exhaustive grids)."""
    if pool is None:
        first = True
        for inp in gen:
            rec.book(evaluate(inp), inp, key=_key(inp), nontrivial=_nontrivial(inp), sample=first)
            first = False
        return
    buf, futs = [], []
    first = [True]

    def drain(limit):
        while len(futs) > limit:
            n_evals, n_distinct, fails, sample = futs.pop(0).result()
            rec.book_summary(n_evals, n_distinct, fails, sample if first[0] else None)
            first[0] = False

    for inp in gen:
        buf.append(inp)
        if len(buf) >= chunk:
            futs.append(pool.submit(_chunk_eval, buf))
            buf = []
            drain(max_inflight)
    if buf:
        futs.append(pool.submit(_chunk_eval, buf))
    drain(0)


def run(tier, seed):
    thorough = tier == "thorough"
    rng = np.random.default_rng(seed)
    rec = Recorder(max_samples=8)
    rule = ("distinct = (slicer, membership-relevant options, value_range, data vector); non-trivial = data not all "
            "zero; one evaluation = one clause (partition/aligned/boundaries/references/min_n/drop) on one scenario")
    L = 5 if thorough else 3
    workers = min(4, os.cpu_count() or 1)
    pool = ProcessPoolExecutor(max_workers=workers) if workers > 1 else None
    try:
        rec.begin("fixed anchors named in DESIGN.md", f"{len(ANCHORS)} inputs", rule)
        _consume(rec, iter(ANCHORS))
        rec.begin("WidthOfIntervalSlicer, exhaustive", f"ALL vectors of length <= {L} over {{k*w/2, k=0..8}} for w in {WIDTHS} "
                  "x right_open; reference/min_n_points/min_n_intervals cycled", rule)
        _consume(rec, gen_width_exhaustive(L), pool)
        kp = 40 if thorough else 30
        rec.begin("WidthOfIntervalSlicer, all (value, max) pairs", f"all pairs over {{k*w/2, k=0..{kp}}} x widths x right_open "
                  "(membership depends on value and max only)", rule)
        _consume(rec, gen_width_pairs(kp), pool)
        Lr = 3 if thorough else 2
        rec.begin("WidthOfIntervalSlicer with value_range", f"all vectors of length <= {Lr} x 6 value_range settings x right_open", rule)
        _consume(rec, gen_width_ranges(Lr), pool)
        Ln = 5 if thorough else 3
        ns = N_INTERVALS
        rec.begin("NumberOfIntervalsSlicer, exhaustive", f"ALL vectors of length <= {Ln} over {{k*s/2, k=0..{8 if thorough else 6}}}, s in {WIDTHS} "
                  f"x n_intervals in {ns} x include_max", rule)
        if thorough:
            # length <= 4 for everything; length 5 for the decimal steps and n_intervals 3 and 7 (membership depends on (value, min, max)
            # only, and all such triples are enumerated separately below)
            _consume(rec, gen_number_exhaustive(4, 8), pool)
            _consume(rec, (x for x in gen_number_exhaustive(5, 8, steps=[0.1, 0.3, 0.7], ns=[3, 7]) if len(x["data"]) == 5), pool)
        else:
            _consume(rec, gen_number_exhaustive(3, 6), pool)
        kt = 16 if thorough else 12
        rec.begin("NumberOfIntervalsSlicer, all (min, value, max) triples", f"all sorted triples over {{k*s/2, k=0..{kt}}} x n_intervals, rotated order", rule)
        _consume(rec, gen_number_triples(kt), pool)
        rec.begin("NumberOfIntervalsSlicer with value_range", f"all vectors of length <= {Lr} x 4 ranges x n in (1,3,7,10) x include_max", rule)
        _consume(rec, gen_number_ranges(Lr), pool)
        nv = 6 if thorough else 4
        rec.begin("PointsPerIntervalSlicer, exhaustive", f"ALL vectors of length <= 5 over {nv} lattice values (ties, every order) x "
                  "n_points 1..len x last_full; reference callable and min_n cycled", rule)
        _consume(rec, gen_points_exhaustive(5, nv), pool)
        rec.begin("PointsPerIntervalSlicer, n_points > len(data)", "4 vectors x 2 n_points x min_n options", rule)
        _consume(rec, gen_points_too_few())
        cnt, mx = (40, 20000) if thorough else (10, 5000)
        rec.begin("seeded long vectors", f"{3 * cnt} scenarios, 300..{mx} rows, lattice/rounded/continuous values, sorted/shuffled/"
                  "reversed/block order, value_range settings, all three slicers", rule)
        _consume(rec, gen_random(rng, cnt, mx), pool)
    finally:
        if pool is not None:
            pool.shutdown()
    out = rec.result()
    out["exhaustive"] = True
    return jsonable(out)
