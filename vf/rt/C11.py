"""RTC driver for C11 - fixed parameters are honoured at construction, in evaluation and through fitting.

Clauses checked on the real code, for every family and every non-empty subset S of its parameters declared fixed:
  ctor.value       D(f_S = v).p == v and .f_p == v for p in S (also when a free value for p is passed as well, in
                   either keyword order); the other parameters keep their (given / default) values
  eval.<m>         cdf/pdf/icdf/draw_sample of D(f_S = v, rest = t) are bit-identical to D(all = (v, t)) and follow the formula
  fit.succeeds     fit(data, 'mle') returns for every non-empty PROPER subset (data from the family / another family)
  fit.fixed        afterwards every fixed parameter still has its value (1e-12 relative) and f_p is unchanged
  fit.estimated    the non-fixed parameters are finite and were estimated (moved away from the start values)
  lsq.*            exponentiated Weibull least squares ('lsq', 'wlsq', several weights): fixed delta kept, alpha/beta
                   estimated; unsupported fixed subsets raise NotImplementedError instead of silently fitting
  cond.*           ConditionalDistribution: a fixed parameter has the same value for every conditioning value, also
                   after ConditionalDistribution.fit (every per-interval fit keeps it)
"""

import itertools
import math

import numpy as np

from vf.rt._common_B import (FAM, ALL, Recorder, replay_with, close, bit_equal, last_line, build_conditional, plain_params)

P_EVAL = [1e-5, 0.02, 0.3, 0.5, 0.77, 0.995]


def _subsets(pnames, proper):
    out = []
    for r in range(1, len(pnames) + (0 if proper else 1)):
        out += [list(c) for c in itertools.combinations(pnames, r)]
    return out


def _is_scipy(fam):
    return fam.name.startswith("Scipy:")


def sc_ctor(inp, rec):
    fam = FAM[inp["family"]]
    S = list(inp["fixed"])
    th = {k: float(v) for k, v in inp["theta"].items()}  # target values (fixed ones from here)
    other = {k: float(v) for k, v in inp["other"].items()}  # decoy free values
    tag = "+".join(S)
    base = f"ctor/{fam.name}/fixed={tag}"
    rec.key(("ctor", fam.name, tag, tuple(sorted(th.items()))))
    fkw = {f"f_{k}": th[k] for k in S}
    free = {k: th[k] for k in fam.pnames if k not in S}

    def values_ok(d, expect_free):
        p = d.parameters
        return (list(p.keys()) == fam.pnames and all(p[k] == th[k] and getattr(d, k) == th[k] and getattr(d, "f_" + k) == th[k] for k in S)
                and all(p[k] == expect_free[k] and getattr(d, "f_" + k) is None for k in fam.pnames if k not in S))

    try:
        d = fam.cls(**fkw)
        defaults = fam.cls().parameters
        rec.check(values_ok(d, defaults), base + "/value", "a parameter declared fixed has that value from construction on",
                  lambda: f"{fam.cls.__name__}({fkw}).parameters = {d.parameters}; f_ = { {k: getattr(d, 'f_' + k) for k in fam.pnames} }", inp)
        d = fam.cls(**free, **fkw)
        rec.check(values_ok(d, free), base + "/value.with-free", "fixed values from construction on, free parameters as given",
                  lambda: f"{fam.cls.__name__}({ {**free, **fkw} }).parameters = {d.parameters}", inp)
        # a free value passed for a parameter that is also declared fixed is ignored (documented), in either keyword order
        decoy = {k: other[k] for k in S}
        for order, kw in (("free-first", {**decoy, **free, **fkw}), ("fixed-first", {**fkw, **free, **decoy})):
            d2 = fam.cls(**kw)
            rec.check(values_ok(d2, free), f"{base}/value.both-given.{order}",
                      "if f_<name> is set the free value passed for <name> is ignored: the parameter has the fixed value from construction on",
                      lambda: f"{fam.cls.__name__}({kw}).parameters = {d2.parameters}", inp)
    except Exception as e:
        rec.check(False, base + "/value", "construction with fixed parameters succeeds", "raised " + last_line(e), inp)
        return
    # evaluation uses the fixed values
    try:
        d = fam.cls(**free, **fkw)
        full = fam.make(th)
        x = np.asarray(fam.ref_icdf(np.array(P_EVAL), th), dtype=float)
        for m in ("cdf", "pdf", "icdf"):
            arg = np.array(P_EVAL) if m == "icdf" else x
            got, exp = np.asarray(getattr(d, m)(arg)), np.asarray(getattr(full, m)(arg))
            ref = np.asarray(getattr(fam, "ref_" + m)(arg, th), dtype=float)
            okf = bool(np.all(np.abs(got - ref) <= 1e-9 * np.abs(ref) + ((1e-5 if fam.circular else 1e-10) * fam.scale(th) if m == "icdf" else (1e-11 if fam.circular else 0))))
            rec.check(bit_equal(got, exp) and okf, f"{base}/eval.{m}", "every evaluation uses the fixed value",
                      lambda: f"fixed-instance {got[:3]!r}, all-explicit instance {exp[:3]!r}, formula {ref[:3]!r}", inp)
        got, exp = d.draw_sample(5, random_state=99), full.draw_sample(5, random_state=99)
        rec.check(bit_equal(got, exp), f"{base}/eval.draw_sample", "sampling uses the fixed value", lambda: f"{got!r} vs {exp!r}", inp)
    except Exception as e:
        rec.check(False, base + "/eval", "evaluation succeeds", "raised " + last_line(e), inp)


def _data(inp):
    """deterministic data set from the recipe in the inputs"""
    rng = np.random.default_rng(int(inp["data_seed"]))
    n = int(inp["n"])
    src = inp["source"]
    if src["kind"] == "family":
        f = FAM[src["family"]]
        return np.asarray(f.make(src["theta"]).draw_sample(n, random_state=rng), dtype=float)
    if src["kind"] == "lognormal":
        return rng.lognormal(src["mu"], src["sigma"], n)
    if src["kind"] == "weibull":
        return src["scale"] * rng.weibull(src["shape"], n) + src["loc"]
    if src["kind"] == "normal":
        return rng.normal(src["mu"], src["sigma"], n)
    if src["kind"] == "gumbel":
        return rng.gumbel(src["mu"], src["sigma"], n)
    raise ValueError(src)


def _fix_values(fam, S, th, x, perturb):
    """fixed values: the generating ones (perturb=1) or a nearby value; locations kept below the data"""
    out = {}
    for k in S:
        v = float(th[k])
        role = fam.roles[k]
        if role in ("loc",) and not fam.circular and fam.name not in ("Normal", "Scipy:gumbel_r"):
            v = min(v, float(np.min(x)) - 0.05)
        elif role == "loc":
            v = v + (perturb - 1.0)
        elif role == "logscale":
            v = v + math.log(perturb)
        else:
            v = v * perturb
        out[k] = v
    return out


def sc_fit(inp, rec):
    fam = FAM[inp["family"]]
    S = list(inp["fixed"])
    method = inp["method"]
    weights = inp.get("weights")
    tag = "+".join(S)
    base = f"fit/{fam.name}/fixed={tag}/{method}{'' if weights is None else ':' + str(inp.get('weights_label', weights))}/{inp['data_label']}"
    x = _data(inp)
    fixed = {k: float(v) for k, v in inp["fixed_values"].items()}
    rec.key(("fit", fam.name, tag, method, str(weights)[:20], inp["data_label"], int(inp["data_seed"])), nontrivial=len(np.unique(x)) > 10)
    d = fam.cls(**{f"f_{k}": v for k, v in fixed.items()})
    start = dict(d.parameters)
    w = weights
    if isinstance(weights, dict):  # array weights from a recipe
        w = np.random.default_rng(int(weights["seed"])).uniform(0.5, 2.0, len(x)) * float(weights["scale"])
    try:
        if method == "mle":
            d.fit(x)
        else:
            d.fit(x, method=method, weights=w)
    except NotImplementedError as e:
        supported = method == "mle" or (S == ["delta"] and fam.name == "ExponentiatedWeibull")
        rec.check(not supported, base + "/succeeds", "fitting succeeds for every proper subset of fixed parameters supported by the method",
                  "raised " + last_line(e), inp)
        # an unsupported combination must leave the fixed values untouched
        after = d.parameters
        rec.check(all(after[k] == fixed[k] for k in S), base + "/fixed", "fixed parameters untouched when the method does not support the subset",
                  f"{after}", inp)
        return
    except Exception as e:
        rec.check(False, base + "/succeeds", "fitting succeeds for every proper subset of fixed parameters supported by the method",
                  "raised " + last_line(e), inp)
        return
    rec.check(True, base + "/succeeds", "", "", inp)
    after = {k: v for k, v in d.parameters.items()}
    okfix = all(np.isfinite(float(after[k])) and abs(float(after[k]) - fixed[k]) <= 1e-12 * abs(fixed[k]) for k in S)
    okattr = all(getattr(d, "f_" + k) == fixed[k] for k in S) and all(getattr(d, "f_" + k) is None for k in fam.pnames if k not in S)
    rec.check(okfix and okattr, base + "/fixed", "a fixed parameter is still that value (1e-12 relative) after fitting",
              lambda: f"fixed {fixed}; after fit {after}; f_ attributes { {k: getattr(d, 'f_' + k) for k in fam.pnames} }", inp)
    free = [k for k in fam.pnames if k not in S]
    okfree = all(np.isfinite(float(after[k])) for k in free) and all(float(after[k]) != float(start[k]) for k in free)
    rec.check(okfree, base + "/estimated", "the non-fixed parameters are estimated (finite, moved away from the start values)",
              lambda: f"start {start}; after fit {after}", inp)
    rec.sample({"kind": "fit", "family": fam.name, "fixed": fixed, "method": method, "data": inp["data_label"], "after": {k: float(v) for k, v in after.items()}})


def sc_cond(inp, rec):
    """fixed parameters inside a ConditionalDistribution, before and after ConditionalDistribution.fit"""
    spec = inp["spec"]
    fam = FAM[spec["family"]]
    base = f"cond/{inp['label']}"
    fixed = spec["fixed"]
    rec.key(("cond", inp["label"], int(inp["data_seed"])), nontrivial=len(fixed) > 0)
    gs = [float(g) for g in inp["given"]]
    try:
        cd = build_conditional(spec)
        vals = [cd._get_param_values(g) for g in gs] + [cd._get_param_values(np.asarray(gs))]
        ok = all(all(np.ndim(v[k]) == 0 and v[k] == fixed[k] for k in fixed) for v in vals)
        rec.check(ok, base + "/same-for-every-g", "in conditional distributions a fixed parameter has the same value for every conditioning value",
                  lambda: f"fixed {fixed}; values { [{k: v[k] for k in fixed} for v in vals] }", inp)
    except Exception as e:
        rec.check(False, base + "/same-for-every-g", "evaluation succeeds", "raised " + last_line(e), inp)
        return
    # fit: data per interval drawn from the conditional distribution itself at the interval centres
    rng = np.random.default_rng(int(inp["data_seed"]))
    centres = [float(c) for c in inp["centres"]]
    try:
        data = []
        for c in centres:
            th = {k: float(v) for k, v in plain_params(spec, c).items()}
            data.append(np.asarray(fam.make(th).draw_sample(int(inp["n"]), random_state=rng), dtype=float))
        bounds = [(c - 0.5, c + 0.5) for c in centres]
        cd.fit(data, centres, bounds, method=inp.get("method"), weights=inp.get("weights"))
    except Exception as e:
        rec.check(False, base + "/fit.succeeds", "fitting the conditional distribution succeeds", "raised " + last_line(e), inp)
        return
    per = cd.parameters_per_interval
    ok = all(all(abs(float(p[k]) - fixed[k]) <= 1e-12 * abs(fixed[k]) for k in fixed) for p in per) and len(per) == len(centres)
    rec.check(ok, base + "/fit.per-interval", "every per-interval fit keeps the fixed parameter (1e-12 relative)",
              lambda: f"fixed {fixed}; per interval { [{k: float(p[k]) for k in fixed} for p in per] }", inp)
    okfree = all(all(np.isfinite(float(p[k])) for k in p) for p in per) and all(
        len({float(p[k]) for p in per}) == len(per) for k in fam.pnames if k not in fixed)
    rec.check(okfree, base + "/fit.estimated", "the non-fixed parameters are estimated per interval (finite, differ between intervals)",
              lambda: f"{[{k: float(v) for k, v in p.items()} for p in per]}", inp)
    vals = [cd._get_param_values(g) for g in gs]
    ok = all(all(v[k] == fixed[k] for k in fixed) for v in vals) and cd.fixed_parameters == fixed
    rec.check(ok, base + "/fit.same-for-every-g", "after fitting, a fixed parameter still has the same (fixed) value for every conditioning value",
              lambda: f"fixed {fixed}; values { [{k: v[k] for k in fixed} for v in vals] }", inp)


SCENARIOS = {"ctor": sc_ctor, "fit": sc_fit, "cond": sc_cond}

# dependence functions linear in their coefficients: their least-squares fit (not C11's subject) cannot fail to converge
COND_SPECS = {
    "EW(f_delta)|wlsq": ({"family": "ExponentiatedWeibull", "fixed": {"delta": 5.0},
                          "dep": {"alpha": {"f": "lin2", "p": [0.4, 0.2]}, "beta": {"f": "lin2", "p": [1.2, 0.1]}}}, "wlsq", "quadratic"),
    "EW(f_delta)|mle": ({"family": "ExponentiatedWeibull", "fixed": {"delta": 2.0},
                         "dep": {"alpha": {"f": "lin2", "p": [0.4, 0.2]}, "beta": {"f": "lin2", "p": [1.2, 0.1]}}}, "mle", None),
    "LogNormal(f_sigma)": ({"family": "LogNormal", "fixed": {"sigma": 0.25}, "dep": {"mu": {"f": "lin2", "p": [0.5, 0.2]}}}, "mle", None),
    "Weibull(f_beta,f_gamma)": ({"family": "Weibull", "fixed": {"beta": 2.0, "gamma": 0.0}, "dep": {"alpha": {"f": "lin2", "p": [1.0, 0.5]}}}, "mle", None),
    "GenGamma(f_m)": ({"family": "GeneralizedGamma", "fixed": {"m": 2.0}, "dep": {"c": {"f": "lin2", "p": [1.0, 0.1]}, "lambda_": {"f": "lin2", "p": [0.8, -0.05]}}}, "mle", None),
    "VonMises(f_kappa)": ({"family": "VonMises", "fixed": {"kappa": 2.5}, "dep": {"mu": {"f": "lin2", "p": [-1.0, 0.2]}}}, "mle", None),
    "Normal(f_sigma)": ({"family": "Normal", "fixed": {"sigma": 1.5}, "dep": {"mu": {"f": "lin2", "p": [1.0, 2.0]}}}, "mle", None),
    "LogNormalNormFit(f_sigma_norm)": ({"family": "LogNormalNormFit", "fixed": {"sigma_norm": 0.9}, "dep": {"mu_norm": {"f": "lin2", "p": [2.0, 0.8]}}}, "mle", None),
    "Scipy:gamma(f_loc)": ({"family": "Scipy:gamma", "fixed": {"loc": 0.0}, "dep": {"a": {"f": "lin2", "p": [2.0, 0.5]}, "scale": {"f": "lin2", "p": [0.5, 0.1]}}}, "mle", None),
}


LSQ_FIXED_RECIPES = [
    {"n": 1134, "data_seed": 1014340005, "source": {"kind": "lognormal", "mu": 1.1658, "sigma": 0.4964}, "data_label": "other:lognormal"},
    {"n": 900, "data_seed": 424242, "source": {"kind": "family", "family": "ExponentiatedWeibull", "theta": {"alpha": 1.4, "beta": 1.3, "delta": 1.73}},
     "data_label": "own-family"},
]


def _other_source(fam, rng):
    if fam.circular:
        return "normal", {"kind": "normal", "mu": float(rng.uniform(-0.5, 0.5)), "sigma": float(rng.uniform(0.6, 1.0))}
    if not fam.positive:
        return "gumbel", {"kind": "gumbel", "mu": float(rng.uniform(0, 3)), "sigma": float(rng.uniform(1, 2))}
    if fam.name in ("LogNormal", "LogNormalNormFit"):
        return "weibull", {"kind": "weibull", "scale": float(rng.uniform(1.5, 3)), "shape": float(rng.uniform(1.3, 2.2)), "loc": 0.3}
    return "lognormal", {"kind": "lognormal", "mu": float(rng.uniform(0.3, 1.2)), "sigma": float(rng.uniform(0.3, 0.6))}


def run(tier, seed):
    rng = np.random.default_rng(seed)
    rec = Recorder()
    thorough = tier != "quick"
    reps = 5 if thorough else 1

    rec.group("constructors and evaluation with fixed parameters", f"{len(ALL)} families x every non-empty subset of fixed parameters x {reps} seeded value set(s)",
              "distinct = (family, fixed subset, values)")
    for name in ALL:
        fam = FAM[name]
        for S in _subsets(fam.pnames, proper=False):
            for _ in range(reps):
                th, other = fam.regular(rng), fam.regular(rng)
                sc_ctor({"kind": "ctor", "family": name, "fixed": S, "theta": th, "other": other}, rec)

    rec.group("maximum-likelihood fitting with fixed parameters", f"{len(ALL)} families x every non-empty proper subset x data from the family and from another family"
              f" x {reps} seeded data set(s) of 300..2000 points", "distinct = (family, fixed subset, data set); non-trivial = more than 10 distinct observations")
    for name in ALL:
        fam = FAM[name]
        for S in _subsets(fam.pnames, proper=True):
            for _ in range(reps):
                for own in (True, False):
                    th = fam.regular(rng)
                    n = int(rng.integers(300, 2001))
                    ds = int(rng.integers(0, 2 ** 31 - 1))
                    if own:
                        dl, src = "own-family", {"kind": "family", "family": name, "theta": th}
                    else:
                        dl, src = _other_source(fam, rng)
                        dl = "other:" + dl
                    inp = {"kind": "fit", "family": name, "fixed": S, "method": "mle", "n": n, "data_seed": ds, "source": src, "data_label": dl}
                    x = _data(inp)
                    inp["fixed_values"] = _fix_values(fam, S, th, x, 1.0 if rng.random() < 0.5 else float(rng.uniform(0.9, 1.1)))
                    sc_fit(inp, rec)

    rec.group("exponentiated Weibull least squares with fixed parameters", "every non-empty proper subset x {lsq, wlsq} x weights {None, linear, quadratic, cubic, array}",
              "distinct = (fixed subset, method, weights, data set)")
    fam = FAM["ExponentiatedWeibull"]
    for S in _subsets(fam.pnames, proper=True):
        wopts = [("lsq", None, "none"), ("wlsq", "linear", "linear"), ("wlsq", "quadratic", "quadratic"), ("wlsq", "cubic", "cubic"),
                 ("wlsq", {"seed": 7, "scale": 1.0}, "array"), ("lsq", "quadratic", "quadratic")]
        if S != ["delta"]:
            wopts = wopts[:3]
        for method, w, wl in wopts:
            if wl in ("none", "array"):
                # un-normalised weights: the estimates' size depends on n and on the data scale (the closed form of
                # _estimate_alpha_beta, see C13), so these specifications run on FIXED, seed-independent data recipes
                for rcp in LSQ_FIXED_RECIPES:
                    inp = {"kind": "fit", "family": fam.name, "fixed": S, "method": method, "weights": w, "weights_label": wl, **rcp}
                    inp["fixed_values"] = {k: {"alpha": 1.4, "beta": 1.3, "delta": 1.73}[k] for k in S}
                    sc_fit(inp, rec)
                continue
            for _ in range(reps):
                for own in (True, False):
                    th = fam.regular(rng)
                    n = int(rng.integers(300, 2001))
                    ds = int(rng.integers(0, 2 ** 31 - 1))
                    if own:
                        dl, src = "own-family", {"kind": "family", "family": fam.name, "theta": th}
                    else:
                        dl, src = _other_source(fam, rng)
                        dl = "other:" + dl
                    inp = {"kind": "fit", "family": fam.name, "fixed": S, "method": method, "weights": w, "weights_label": wl, "n": n,
                           "data_seed": ds, "source": src, "data_label": dl}
                    inp["fixed_values"] = _fix_values(fam, S, th, None, 1.0 if rng.random() < 0.5 else float(rng.uniform(0.9, 1.1)))
                    sc_fit(inp, rec)

    rec.group("fixed parameters in ConditionalDistribution (evaluation and ConditionalDistribution.fit)", f"{len(COND_SPECS)} conditional distributions, 6 intervals x 400 points",
              "distinct = (conditional distribution, data seed)")
    for label, (spec, method, weights) in COND_SPECS.items():
        for _ in range(reps):
            sc_cond({"kind": "cond", "label": label, "spec": spec, "method": method, "weights": weights, "given": [0.7, 1.9, 3.3, 5.2, 8.1],
                     "centres": [1.0, 2.0, 3.0, 4.0, 5.0, 6.0], "n": 400, "data_seed": int(rng.integers(0, 2 ** 31 - 1))}, rec)
    return rec.result()


def replay(doc):
    return replay_with(SCENARIOS, doc)
