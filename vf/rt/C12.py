"""RTC driver for C12 - maximum-likelihood fits do not lose likelihood and are scale-equivariant.

For data x sampled from a regular member theta_gen of a family (100..5000 points, data scale within [0.05, 20]) and a start
(default constructor values / a perturbed admissible user start / the generating values / a previous optimum):
  succeeds           fit(x) returns
  admissible         the fitted parameters are finite and admissible (and every observation lies in the fitted support)
  ll_ge_start        loglik(fitted) >= loglik(start)      - (1e-9 |loglik| + 1e-3)
  ll_ge_generating   loglik(fitted) >= loglik(theta_gen)  - (1e-9 |loglik| + 1e-3)
  equivariance       fitting c*x from the same start: location/scale estimates x c, log-scale + ln c, reciprocal scale / c,
                     shapes unchanged, 1e-3 relative (locations relative to max(|loc|, scale)); not applicable to the
                     circular von Mises family (scaling angles is no symmetry of the family)
The log-likelihood is computed with the independent reference pdf. The additive 1e-3 is the optimiser tolerance of the
simplex search used by scipy's fit (it stops at |delta nnlf| <= 1e-4).

Case ids are `mle/<family>/<clause>`: per family and clause, because which seeded data set trips a sporadic optimiser failure
is a lottery; every such id known to fail sporadically is ALSO exercised by fixed, seed-independent recipes (FIXED) that fail
deterministically, so the set of failing ids does not depend on the seed.
"""

import math

import numpy as np

from vf.rt._common_B import FAM, ALL, Recorder, replay_with, last_line, loglik

LL_ABS = 1e-3
LL_REL = 1e-9
EQ_TOL = 1e-3


def _data(inp):
    fam = FAM[inp["family"]]
    rng = np.random.default_rng(int(inp["data_seed"]))
    return np.asarray(fam.make(inp["theta_gen"]).draw_sample(int(inp["n"]), random_state=rng), dtype=float)


def _start(inp, fam, x):
    kind = inp["start_kind"]
    th = inp["theta_gen"]
    if kind == "default":
        return None
    if kind == "generating":
        return dict(th)
    if kind == "user":
        st = {}
        for k, f in zip(fam.pnames, inp["start_factors"]):
            role = fam.roles[k]
            st[k] = th[k] + 0.1 * (f - 1.0) * 4 * fam.scale(th) if role == "loc" else (th[k] + math.log(f) if role == "logscale" else th[k] * f)
            if role == "loc" and fam.positive and st[k] >= float(np.min(x)):
                st[k] = float(np.min(x)) - 0.05  # a start whose support does not contain the data is not a sensible user start
        return st
    if kind == "lognormal-mle":  # closed-form optimum of the log-normal likelihood, in the norm-fit parameterisation
        m, s = float(np.mean(np.log(x))), float(np.std(np.log(x)))
        return {"mu_norm": math.exp(m + 0.5 * s * s), "sigma_norm": math.exp(m + 0.5 * s * s) * math.sqrt(math.expm1(s * s))}
    raise ValueError(kind)


def _back(fam, thc, c):
    out = {}
    for k, role in fam.roles.items():
        v = float(thc[k])
        out[k] = v / c if role in ("scale", "loc") else (v - math.log(c) if role == "logscale" else (v * c if role == "invscale" else v))
    return out


def _equiv_errors(fam, th1, thc, c):
    errs = {}
    s1 = fam.scale(th1) if fam.admissible(th1) else 1.0
    for k, role in fam.roles.items():
        a, b = float(th1[k]), float(thc[k])
        if role == "scale":
            e = abs(b - c * a) / abs(c * a)
        elif role == "loc":
            e = abs(b - c * a) / (c * max(abs(a), s1))
        elif role == "logscale":
            e = abs(b - (a + math.log(c))) / max(1.0, abs(a))
        elif role == "invscale":
            e = abs(b - a / c) / abs(a / c)
        else:
            e = abs(b - a) / abs(a)
        errs[k] = e if math.isfinite(e) else math.inf
    return errs


def sc_mle(inp, rec):
    fam = FAM[inp["family"]]
    th_gen = {k: float(v) for k, v in inp["theta_gen"].items()}
    base = f"mle/{fam.name}"
    x = _data(inp)
    st = _start(inp, fam, x)
    c = float(inp["c"])
    tag = f"[{inp.get('label', 'seeded')}, n={len(x)}, start={inp['start_kind']}]"
    rec.key((fam.name, inp["start_kind"], int(inp["data_seed"]), len(x), tuple(sorted(th_gen.items()))), nontrivial=len(np.unique(x)) >= 50)
    d = fam.cls() if st is None else fam.make(st)
    start = {k: float(v) for k, v in d.parameters.items()}
    try:
        d.fit(x)
    except Exception as e:
        rec.check(False, base + "/succeeds", "maximum-likelihood fitting succeeds", f"{tag} raised " + last_line(e), inp)
        return
    fit = {k: float(v) for k, v in d.parameters.items()}
    ll_fit = loglik(fam, x, fit) if fam.admissible(fit) else -math.inf
    adm = fam.admissible(fit) and math.isfinite(ll_fit)
    rec.check(adm, base + "/admissible", "the fitted parameters are finite and admissible (every observation in the fitted support)",
              f"{tag} fitted {fit}, loglik {ll_fit}", inp)
    ll_start = loglik(fam, x, start) if fam.admissible(start) else -math.inf
    if math.isnan(ll_start):
        ll_start = -math.inf
    ll_gen = loglik(fam, x, th_gen)
    tol = LL_ABS + LL_REL * abs(ll_gen)
    rec.check(ll_fit >= ll_start - tol, base + "/ll_ge_start", "log-likelihood after fitting is not lower than under the starting parameters",
              f"{tag} loglik(fitted {fit}) = {ll_fit:.6f} < loglik(start {start}) = {ll_start:.6f}", inp)
    rec.check(ll_fit >= ll_gen - tol, base + "/ll_ge_generating", "log-likelihood after fitting is not lower than under the generating parameters",
              f"{tag} loglik(fitted {fit}) = {ll_fit:.6f} < loglik(generating {th_gen}) = {ll_gen:.6f}", inp)
    if not fam.circular:
        try:
            d2 = fam.cls() if st is None else fam.make(st)
            d2.fit(c * x)
            fitc = {k: float(v) for k, v in d2.parameters.items()}
            errs = _equiv_errors(fam, fit, fitc, c)
            worst = max(errs.values())
            rec.check(worst <= EQ_TOL, base + "/equivariance",
                      "multiplying the data by c multiplies location/scale estimates by c and leaves shapes unchanged (1e-3)",
                      lambda: f"{tag} c={c:.4g}: fit(x)={fit}; fit(c x)={fitc}; relative deviations {errs}; "
                              f"loglik(x | fit) - loglik(x | fit(c x) scaled back) = {ll_fit - (loglik(fam, x, _back(fam, fitc, c)) if fam.admissible(_back(fam, fitc, c)) else -math.inf):.4g}", inp)
        except Exception as e:
            rec.check(False, base + "/equivariance", "fitting the scaled data succeeds", f"{tag} raised " + last_line(e), inp)
    rec.sample({"family": fam.name, "n": len(x), "start": inp["start_kind"], "theta_gen": th_gen, "fitted": fit, "loglik_fit": ll_fit, "loglik_gen": ll_gen})


SCENARIOS = {"mle": sc_mle}

# fixed, seed-independent recipes (found by search, large margins) that expose the sporadic failures deterministically
FIXED = [
    {"kind": "mle", "family": "LogNormalNormFit", "theta_gen": {"mu_norm": 1.6787126513363968, "sigma_norm": 0.9400571134578177}, "n": 4875, "data_seed": 1927895051, "start_kind": "default", "start_factors": [1.0182691387423521, 0.837798700720156], "c": 1.3487699313166508, "label": "fixed:LogNormalNormFit/ll_ge_generating#1"},
    {"kind": "mle", "family": "LogNormalNormFit", "theta_gen": {"mu_norm": 2.8164230793852894, "sigma_norm": 1.5113209764636981}, "n": 268, "data_seed": 66826785, "start_kind": "default", "start_factors": [1.164630626156959, 0.9591133778517165], "c": 0.7759661515202116, "label": "fixed:LogNormalNormFit/ll_ge_generating#2"},
    {"kind": "mle", "family": "Scipy:gamma", "theta_gen": {"a": 5.981364025580749, "loc": 0.8846522353019227, "scale": 2.3709409488901936}, "n": 227, "data_seed": 959264648, "start_kind": "default", "start_factors": [1.199869980069273, 0.9239262946507165, 1.2330452868315858], "c": 0.6138469394309216, "label": "fixed:Scipy:gamma/equivariance#1"},
    {"kind": "mle", "family": "Scipy:gamma", "theta_gen": {"a": 4.446200198412969, "loc": 0.803286878509205, "scale": 1.134464586265925}, "n": 2722, "data_seed": 1554510975, "start_kind": "default", "start_factors": [1.1467740337392, 0.9733868677207391, 1.0167439845885005], "c": 1.6979006322821384, "label": "fixed:Scipy:gamma/equivariance#2"},
    {"kind": "mle", "family": "GeneralizedGamma", "theta_gen": {"m": 3.476627412288587, "c": 1.9345511758348124, "lambda_": 0.7030205861507206}, "n": 3499, "data_seed": 883836783, "start_kind": "default", "start_factors": [1.2157774109283332, 1.043792782169434, 1.1864239971848405], "c": 2.246641869168201, "label": "fixed:GeneralizedGamma/equivariance#1"},
    {"kind": "mle", "family": "GeneralizedGamma", "theta_gen": {"m": 3.9421676532660244, "c": 2.4187435118254355, "lambda_": 0.3385631180689869}, "n": 128, "data_seed": 1409373683, "start_kind": "default", "start_factors": [0.9129586656747675, 1.229214642526569, 1.10568671529379], "c": 1.7568037119068163, "label": "fixed:GeneralizedGamma/equivariance#2"},
    {"kind": "mle", "family": "Scipy:weibull_min", "theta_gen": {"c": 2.780575630264285, "loc": 0.7622123178945808, "scale": 1.2630351709855083}, "n": 1365, "data_seed": 163051849, "start_kind": "default", "start_factors": [1.0737270528363476, 1.249212943227944, 1.112191492833117], "c": 2.0867432663359655, "label": "fixed:Scipy:weibull_min/equivariance#1"},
    {"kind": "mle", "family": "Scipy:weibull_min", "theta_gen": {"c": 1.4546570385686535, "loc": 0.8213296983713432, "scale": 0.5882363912339277}, "n": 127, "data_seed": 1195777723, "start_kind": "user", "start_factors": [0.9905017242115867, 1.21211688275308, 0.8393412420216562], "c": 2.4386638468847717, "label": "fixed:Scipy:weibull_min/equivariance#2"},
    {"kind": "mle", "family": "Weibull", "theta_gen": {"alpha": 0.6531720690487641, "beta": 1.7780284015068863, "gamma": 0.9755398355305411}, "n": 586, "data_seed": 78383191, "start_kind": "generating", "start_factors": [1.157175918417837, 0.9777321334227184, 1.1276029060517336], "c": 2.2482415743297612, "label": "fixed:Weibull/equivariance#1"},
    {"kind": "mle", "family": "Weibull", "theta_gen": {"alpha": 0.6127995938384393, "beta": 1.919200620217564, "gamma": 0.7748543885794589}, "n": 462, "data_seed": 714131835, "start_kind": "generating", "start_factors": [0.9548030034541902, 1.150931992928989, 1.0712996340380805], "c": 2.0870817640613306, "label": "fixed:Weibull/equivariance#2"},
    {"kind": "mle", "family": "Scipy:gamma", "theta_gen": {"a": 5.954869315213867, "loc": 0.5478704307276561, "scale": 2.167923064159748}, "n": 4285, "data_seed": 568065543, "start_kind": "default", "start_factors": [1.1436833167142408, 0.9466552423968936, 0.8620872531962451], "c": 0.7161516857213228, "label": "fixed:Scipy:gamma/ll_ge_generating#1"},
    {"kind": "mle", "family": "Scipy:gamma", "theta_gen": {"a": 5.63745252983299, "loc": 0.8332190107122961, "scale": 1.9386722146228619}, "n": 3173, "data_seed": 191695545, "start_kind": "default", "start_factors": [0.8952112724955745, 1.2192295614305464, 1.097920169559346], "c": 1.6, "label": "fixed:Scipy:gamma/ll_ge_generating#2"},
]


def _c_for(rng, x_med):
    lo, hi = max(0.4, 0.06 / x_med), min(2.5, 18.0 / x_med)
    c = float(rng.uniform(lo, hi))
    if abs(c - 1.0) < 0.15:
        c = 1.6 if hi >= 1.6 else lo
    return c


def run(tier, seed):
    rng = np.random.default_rng(seed)
    rec = Recorder()
    thorough = tier != "quick"
    n_sets = 20 if thorough else 3
    # fixed recipes first: the failure recorded (and replayed) for a sporadically failing id is then always the same one
    rec.group("fixed recipes", f"{len(FIXED)} seed-independent data sets / starts that expose the sporadic optimiser failures deterministically",
              "distinct = recipe")
    for rcp in FIXED:
        sc_mle(dict(rcp), rec)
    rec.group("seeded data sets: MLE fit from default / user / generating start, likelihood and equivariance clauses",
              f"{len(ALL)} families x {n_sets} data sets of 100..5000 points from regular parameter regions (data scale in [0.05, 20]) x 3 starts x scale factor in [0.4, 2.5]",
              "distinct = (family, start kind, data set); non-trivial = at least 50 distinct observations")
    for name in ALL:
        fam = FAM[name]
        k_sets = n_sets if name != "ExponentiatedWeibull" or thorough else 2
        for _ in range(k_sets):
            th = fam.regular(rng)
            n = int(round(10 ** rng.uniform(2.0, math.log10(5000))))
            if name == "ExponentiatedWeibull" and not thorough:
                n = min(n, 1500)
            ds = int(rng.integers(0, 2 ** 31 - 1))
            med = abs(float(np.asarray(fam.ref_icdf(0.5, th)))) if not fam.circular else 1.0
            for sk in ("default", "user", "generating"):
                inp = {"kind": "mle", "family": name, "theta_gen": th, "n": n, "data_seed": ds, "start_kind": sk,
                       "start_factors": [float(v) for v in rng.uniform(0.8, 1.25, len(fam.pnames))], "c": _c_for(rng, max(med, 0.05))}
                sc_mle(inp, rec)
            if name == "LogNormalNormFit":
                sc_mle({"kind": "mle", "family": name, "theta_gen": th, "n": n, "data_seed": ds, "start_kind": "lognormal-mle", "c": 1.7}, rec)
    return rec.result()


def replay(doc):
    return replay_with(SCENARIOS, doc)
