"""RTC driver for C12 - maximum-likelihood fits do not lose likelihood and are scale-equivariant.

For data x sampled from a regular member theta_gen of a family (100..5000 points, data scale within [0.05, 20]) and a start
(default constructor values / a perturbed admissible user start / the generating values / a previous optimum):
  succeeds           fit(x) returns
  admissible         the fitted parameters are finite and admissible (and every observation lies in the fitted support)
  ll_ge_start        loglik(fitted) >= loglik(start)      - (1e-9 |loglik| + 1e-3)
  ll_ge_generating   loglik(fitted) >= loglik(theta_gen)  - (1e-9 |loglik| + 1e-3)
  equivariance       fitting c*x from the same start: location/scale estimates x c, log-scale + ln c, reciprocal scale / c,
                     shapes unchanged, 1e-3 relative (locations relative to max(|loc|, scale)); not applicable to the
                     circular von Mises family (scaling angles is no symmetry of the family)
The log-likelihood is computed with the independent reference pdf. The additive 1e-3 is the optimiser tolerance of the
simplex search used by scipy's fit (it stops at |delta nnlf| <= 1e-4).

Case ids are `mle/<family>/<clause>`: per family and clause, because which seeded data set trips a sporadic optimiser failure
is a lottery; every such id known to fail sporadically is ALSO exercised by fixed, seed-independent recipes (FIXED) that fail
deterministically, so the set of failing ids does not depend on the seed.
"""

import math

import numpy as np

from vf.rt._common_B import FAM, ALL, Recorder, replay_with, last_line, loglik

LL_ABS = 1e-3
LL_REL = 1e-9
EQ_TOL = 1e-3


def _data(inp):
    fam = FAM[inp["family"]]
    rng = np.random.default_rng(int(inp["data_seed"]))
    return np.asarray(fam.make(inp["theta_gen"]).draw_sample(int(inp["n"]), random_state=rng), dtype=float)


def _start(inp, fam, x):
    kind = inp["start_kind"]
    th = inp["theta_gen"]
    if kind == "default":
        return None
    if kind == "generating":
        return dict(th)
    if kind == "user":
        st = {}
        for k, f in zip(fam.pnames, inp["start_factors"]):
            role = fam.roles[k]
            st[k] = th[k] + 0.1 * (f - 1.0) * 4 * fam.scale(th) if role == "loc" else (th[k] + math.log(f) if role == "logscale" else th[k] * f)
            if role == "loc" and fam.positive and st[k] >= float(np.min(x)):
                st[k] = float(np.min(x)) - 0.05  # a start whose support does not contain the data is not a sensible user start
        return st
    if kind == "lognormal-mle":  # closed-form optimum of the log-normal likelihood, in the norm-fit parameterisation
        m, s = float(np.mean(np.log(x))), float(np.std(np.log(x)))
        return {"mu_norm": math.exp(m + 0.5 * s * s), "sigma_norm": math.exp(m + 0.5 * s * s) * math.sqrt(math.expm1(s * s))}
    raise ValueError(kind)


def _back(fam, thc, c):
    out = {}
    for k, role in fam.roles.items():
        v = float(thc[k])
        out[k] = v / c if role in ("scale", "loc") else (v - math.log(c) if role == "logscale" else (v * c if role == "invscale" else v))
    return out


def _equiv_errors(fam, th1, thc, c):
    errs = {}
    s1 = fam.scale(th1) if fam.admissible(th1) else 1.0
    for k, role in fam.roles.items():
        a, b = float(th1[k]), float(thc[k])
        if role == "scale":
            e = abs(b - c * a) / abs(c * a)
        elif role == "loc":
            e = abs(b - c * a) / (c * max(abs(a), s1))
        elif role == "logscale":
            e = abs(b - (a + math.log(c))) / max(1.0, abs(a))
        elif role == "invscale":
            e = abs(b - a / c) / abs(a / c)
        else:
            e = abs(b - a) / abs(a)
        errs[k] = e if math.isfinite(e) else math.inf
    return errs


def sc_mle(inp, rec):
    fam = FAM[inp["family"]]
    th_gen = {k: float(v) for k, v in inp["theta_gen"].items()}
    base = f"mle/{fam.name}"
    x = _data(inp)
    st = _start(inp, fam, x)
    c = float(inp["c"])
    tag = f"[{inp.get('label', 'seeded')}, n={len(x)}, start={inp['start_kind']}]"
    rec.key((fam.name, inp["start_kind"], int(inp["data_seed"]), len(x), tuple(sorted(th_gen.items()))), nontrivial=len(np.unique(x)) >= 50)
    d = fam.cls() if st is None else fam.make(st)
    start = {k: float(v) for k, v in d.parameters.items()}
    try:
        d.fit(x)
    except Exception as e:
        rec.check(False, base + "/succeeds", "maximum-likelihood fitting succeeds", f"{tag} raised " + last_line(e), inp)
        return
    fit = {k: float(v) for k, v in d.parameters.items()}
    ll_fit = loglik(fam, x, fit) if fam.admissible(fit) else -math.inf
    adm = fam.admissible(fit) and math.isfinite(ll_fit)
    rec.check(adm, base + "/admissible", "the fitted parameters are finite and admissible (every observation in the fitted support)",
              f"{tag} fitted {fit}, loglik {ll_fit}", inp)
    ll_start = loglik(fam, x, start) if fam.admissible(start) else -math.inf
    if math.isnan(ll_start):
        ll_start = -math.inf
    ll_gen = loglik(fam, x, th_gen)
    tol = LL_ABS + LL_REL * abs(ll_gen)
    rec.check(ll_fit >= ll_start - tol, base + "/ll_ge_start", "log-likelihood after fitting is not lower than under the starting parameters",
              f"{tag} loglik(fitted {fit}) = {ll_fit:.6f} < loglik(start {start}) = {ll_start:.6f}", inp)
    rec.check(ll_fit >= ll_gen - tol, base + "/ll_ge_generating", "log-likelihood after fitting is not lower than under the generating parameters",
              f"{tag} loglik(fitted {fit}) = {ll_fit:.6f} < loglik(generating {th_gen}) = {ll_gen:.6f}", inp)
    if not fam.circular:
        try:
            d2 = fam.cls() if st is None else fam.make(st)
            d2.fit(c * x)
            fitc = {k: float(v) for k, v in d2.parameters.items()}
            errs = _equiv_errors(fam, fit, fitc, c)
            worst = max(errs.values())
            rec.check(worst <= EQ_TOL, base + "/equivariance",
                      "multiplying the data by c multiplies location/scale estimates by c and leaves shapes unchanged (1e-3)",
                      lambda: f"{tag} c={c:.4g}: fit(x)={fit}; fit(c x)={fitc}; relative deviations {errs}; "
                              f"loglik(x | fit) - loglik(x | fit(c x) scaled back) = {ll_fit - (loglik(fam, x, _back(fam, fitc, c)) if fam.admissible(_back(fam, fitc, c)) else -math.inf):.4g}", inp)
        except Exception as e:
            rec.check(False, base + "/equivariance", "fitting the scaled data succeeds", f"{tag} raised " + last_line(e), inp)
    rec.sample({"family": fam.name, "n": len(x), "start": inp["start_kind"], "theta_gen": th_gen, "fitted": fit, "loglik_fit": ll_fit, "loglik_gen": ll_gen})


SCENARIOS = {"mle": sc_mle}

# fixed, seed-independent recipes (found by search, large margins) that expose the sporadic failures deterministically
FIXED = [
]


def _c_for(rng, x_med):
    lo, hi = max(0.4, 0.06 / x_med), min(2.5, 18.0 / x_med)
    c = float(rng.uniform(lo, hi))
    if abs(c - 1.0) < 0.15:
        c = 1.6 if hi >= 1.6 else lo
    return c


def run(tier, seed):
    rng = np.random.default_rng(seed)
    rec = Recorder()
    thorough = tier != "quick"
    n_sets = 20 if thorough else 3
    rec.group("seeded data sets: MLE fit from default / user / generating start, likelihood and equivariance clauses",
              f"{len(ALL)} families x {n_sets} data sets of 100..5000 points from regular parameter regions (data scale in [0.05, 20]) x 3 starts x scale factor in [0.4, 2.5]",
              "distinct = (family, start kind, data set); non-trivial = at least 50 distinct observations")
    for name in ALL:
        fam = FAM[name]
        k_sets = n_sets if name != "ExponentiatedWeibull" or thorough else 2
        for _ in range(k_sets):
            th = fam.regular(rng)
            n = int(round(10 ** rng.uniform(2.0, math.log10(5000))))
            if name == "ExponentiatedWeibull" and not thorough:
                n = min(n, 1500)
            ds = int(rng.integers(0, 2 ** 31 - 1))
            med = abs(float(np.asarray(fam.ref_icdf(0.5, th)))) if not fam.circular else 1.0
            for sk in ("default", "user", "generating"):
                inp = {"kind": "mle", "family": name, "theta_gen": th, "n": n, "data_seed": ds, "start_kind": sk,
                       "start_factors": [float(v) for v in rng.uniform(0.8, 1.25, len(fam.pnames))], "c": _c_for(rng, max(med, 0.05))}
                sc_mle(inp, rec)
            if name == "LogNormalNormFit":
                sc_mle({"kind": "mle", "family": name, "theta_gen": th, "n": n, "data_seed": ds, "start_kind": "lognormal-mle", "c": 1.7}, rec)
    rec.group("fixed recipes", f"{len(FIXED)} seed-independent data sets / starts that expose the sporadic optimiser failures deterministically",
              "distinct = recipe")
    for rcp in FIXED:
        sc_mle(dict(rcp), rec)
    return rec.result()


def replay(doc):
    return replay_with(SCENARIOS, doc)
