"""RTC driver for C13 - exponentiated-Weibull least squares = weighted quantile regression, any weights.

Reference (independent of virocon, numpy.linalg.lstsq): sort the observations (array weights sorted WITH them), plotting
positions p_i = (i-0.5)/n over all n observations, drop x_i = 0, regress log10 x_i on log10(-ln(1-p_i^(1/delta))) with
weights w_i (None: 1; 'linear': x; 'quadratic': x^2; 'cubic': x^3; array: as given): alpha = 10^intercept, beta = 1/slope.

Clauses checked on ExponentiatedWeibullDistribution.fit(x, method='lsq'|'wlsq', weights=...):
  regression       alpha, beta = the weighted regression solution for the delta in force (1e-7 relative, or weighted
                   squared error within 1e-9 of the minimum where the design is ill-conditioned), finite
  scale-free       multiplying an array of weights by a constant does not change the result (1e-9; free delta: 1e-3,
                   the simplex search stops at an absolute step of 1e-4)
  delta.fixed      a fixed delta is returned unchanged
  delta.local-min  a free delta is a local minimiser of the x-space weighted quantile error at the regression solution
                   (E(delta) <= E(delta (1 +- 2%)); evaluated only if `regression` held, otherwise it is undefined)
  zeros            zero observations are ignored (same reference, no NaN/inf)
  order            permuting the observations (array weights permuted with them) does not change the result (1e-9)
  methods          'lsq' and 'wlsq' give the same result
  keyword          an unknown weights keyword raises ValueError
"""

import math

import numpy as np

from vf.rt._common_B import Recorder, replay_with, last_line

from virocon import ExponentiatedWeibullDistribution as EW


RUNAWAY = 1e3  # a fitted delta beyond this is the simplex search running to its iteration limit


# --------------------------------------------------------------------------------------------------------------
def _data(rcp):
    rng = np.random.default_rng(int(rcp["data_seed"]))
    n = int(rcp["n"])
    k = rcp["source"]
    if k == "ew":
        u = rng.random(n)
        x = rcp["alpha"] * (-np.log1p(-u ** (1.0 / rcp["delta"]))) ** (1.0 / rcp["beta"])
    elif k == "weibull":
        x = rcp["alpha"] * rng.weibull(rcp["beta"], n)
    elif k == "lognormal":
        x = rng.lognormal(rcp["mu"], rcp["sigma"], n)
    elif k == "gamma":
        x = rng.gamma(rcp["shape"], rcp["scale"], n)
    else:
        raise ValueError(k)
    if rcp.get("round") is not None:
        x = np.round(x, int(rcp["round"]))  # ties (and zeros for small values)
    if rcp.get("zeros"):
        x[rng.choice(n, int(rcp["zeros"]), replace=False)] = 0.0
    if not rcp.get("allow_zero") and not rcp.get("zeros"):
        x = np.where(x <= 0, 10.0 ** (-int(rcp["round"])) if rcp.get("round") is not None else 1e-6, x)
    if rcp.get("as_int"):
        x = np.maximum(np.round(x), 1).astype(np.int64)  # whole units stored in an integer-typed array
    return x


def _weights(rcp, x):
    """weights argument as passed to fit (input order) and the per-observation weight vector of the reference"""
    w = rcp["weights"]
    if w is None:
        return None, np.ones_like(x)
    if isinstance(w, str):
        return w, {"linear": x, "quadratic": x ** 2, "cubic": x ** 3}[w.lower()]
    if w["kind"] == "random":
        arr = np.random.default_rng(int(w["seed"])).uniform(0.2, 3.0, len(x))
    elif w["kind"] == "x-power":  # a function of x (ties get equal weights)
        arr = np.maximum(x, 1e-3) ** float(w["power"])
    elif w["kind"] == "ones":
        arr = np.ones_like(x)
    else:
        raise ValueError(w)
    if w.get("normalise"):
        arr = arr / arr.sum()
    arr = arr * float(w.get("scale", 1.0))
    arr = np.asarray(arr, dtype=float)
    form = w.get("form", "ndarray")   # "any positive array": also a list / tuple of numbers
    return ({"list": arr.tolist(), "tuple": tuple(arr.tolist())}.get(form, arr)), arr


def ref_regression(x, w, delta):
    """weighted least squares of log10 x on log10(-ln(1-p^(1/delta))) - jointly sorted, zeros dropped"""
    order = np.argsort(x, kind="stable")
    xs, ws = np.asarray(x, dtype=float)[order], np.asarray(w, dtype=float)[order]
    n = len(xs)
    p = (np.arange(1, n + 1) - 0.5) / n
    keep = xs != 0
    xs, ws, p = xs[keep], ws[keep], p[keep]
    ys = np.log10(xs)
    ps = np.log10(-np.log1p(-p ** (1.0 / delta)))
    sw = np.sqrt(ws / ws.sum())
    A = np.column_stack([np.ones_like(ps), ps]) * sw[:, None]
    (a, b), *_ = np.linalg.lstsq(A, ys * sw, rcond=None)
    return 10.0 ** a, 1.0 / b


def ref_sse(x, w, delta, alpha, beta):
    """weighted (weights normalised) squared error of the linearised quantile relation at (alpha, beta)"""
    order = np.argsort(x, kind="stable")
    xs, ws = np.asarray(x, dtype=float)[order], np.asarray(w, dtype=float)[order]
    n = len(xs)
    p = (np.arange(1, n + 1) - 0.5) / n
    keep = xs != 0
    xs, ws, p = xs[keep], ws[keep], p[keep]
    if not (math.isfinite(alpha) and math.isfinite(beta) and alpha > 0 and beta != 0):
        return math.inf
    res = np.log10(xs) - math.log10(alpha) - (1.0 / beta) * np.log10(-np.log1p(-p ** (1.0 / delta)))
    return float(np.sum(ws / ws.sum() * res ** 2))


def ref_error(x, w, delta):
    """x-space weighted quantile error at the regression solution for delta (weights normalised: scale-free)"""
    alpha, beta = ref_regression(x, w, delta)
    order = np.argsort(x, kind="stable")
    xs, ws = np.asarray(x, dtype=float)[order], np.asarray(w, dtype=float)[order]
    n = len(xs)
    p = (np.arange(1, n + 1) - 0.5) / n
    keep = xs != 0
    xs, ws, p = xs[keep], ws[keep], p[keep]
    xhat = alpha * (-np.log1p(-p ** (1.0 / delta))) ** (1.0 / beta)
    return float(np.sum(ws / ws.sum() * (xs - xhat) ** 2))


def _fit(x, warg, method, f_delta, delta0):
    d = EW(f_delta=f_delta) if f_delta is not None else EW(delta=delta0)
    d.fit(x, method=method, weights=warg)
    return float(d.alpha), float(d.beta), float(d.delta)


def _rel(a, b):
    if not (math.isfinite(a) and math.isfinite(b)):
        return 0.0 if a == b else math.inf
    return abs(a - b) / max(abs(b), 1e-300)


def sc_lsq(inp, rec):
    x = _data(inp["data"])
    warg, wvec = _weights(inp, x)
    f_delta = inp.get("f_delta")
    mode = "delta-fixed" if f_delta is not None else "delta-free"
    base = f"ew-lsq/{mode}/{inp['weights_label']}/{inp['data_label']}"
    method = inp.get("method", "wlsq")
    nz = int(np.sum(x != 0))
    rec.key((mode, inp["weights_label"], inp["data_label"], int(inp["data"]["data_seed"]), len(x)), nontrivial=len(np.unique(x[x != 0])) >= 10)
    try:
        alpha, beta, delta = _fit(x, warg, method, f_delta, inp.get("delta0", 1.0))
    except Exception as e:
        rec.check(False, base + "/regression", "least-squares fitting succeeds", "raised " + last_line(e), inp)
        return
    if f_delta is not None:
        rec.check(delta == f_delta, base + "/delta.fixed", "the delta in force is the fixed one", f"delta {delta} vs fixed {f_delta}", inp)
    ok_reg = False
    if math.isfinite(delta) and delta > 0 and (0.5 / len(x)) ** (1.0 / delta) < 1e-9:
        # (free) delta so small that 1 - p^(1/delta) cancels in double precision: the clauses are statements about real
        # numbers and cannot be judged to round-off here; nothing is evaluated (and nothing counted) for this outcome
        rec.sample({"skipped": base, "reason": "1 - p^(1/delta) below double-precision resolution", "delta": delta})
        return
    if math.isfinite(delta) and delta > 0:
        a_ref, b_ref = ref_regression(x, wvec, delta)
        # minimiser: parameters equal to the regression solution (1e-7), or - for ill-conditioned designs, where the
        # parameters are only determined up to cond^2*eps - the weighted squared error is the minimum to 1e-9 relative
        sse_fit, sse_ref = ref_sse(x, wvec, delta, alpha, beta), ref_sse(x, wvec, delta, a_ref, b_ref)
        ok_reg = (_rel(alpha, a_ref) <= 1e-7 and _rel(beta, b_ref) <= 1e-7) or sse_fit <= sse_ref * (1 + 1e-9)
        rec.check(ok_reg, base + "/regression",
                  "alpha and beta minimise the weighted squared error of the linearised quantile relation for the delta in force",
                  f"n={len(x)} (non-zero {nz}), delta={delta:.6g}: fit alpha={alpha:.6g}, beta={beta:.6g} (weighted SSE {sse_fit:.6g}); "
                  f"weighted regression alpha={a_ref:.6g}, beta={b_ref:.6g} (weighted SSE {sse_ref:.6g})", inp)
    else:
        rec.check(False, base + "/regression", "delta in force is finite and positive", f"delta={delta}", inp)
    if int(np.sum(x == 0)) > 0:
        rec.check(ok_reg and math.isfinite(alpha) and math.isfinite(beta), base + "/zeros", "zero observations are ignored",
                  f"{int(np.sum(x == 0))} zeros among {len(x)}: alpha={alpha}, beta={beta}", inp)
    # free delta: local minimiser of the x-space error (defined through the regression solution)
    if f_delta is None and ok_reg:
        e0 = ref_error(x, wvec, delta)
        em, ep = ref_error(x, wvec, delta * 0.98), ref_error(x, wvec, delta * 1.02)
        ok_min = e0 <= em * (1 + 1e-9) and e0 <= ep * (1 + 1e-9)
        # the simplex search ran away (error decreasing in delta up to the iteration limit): one stable id for this outcome
        case = base + "/delta.local-min" if (ok_min or delta < RUNAWAY) else "ew-lsq/delta-free/runaway-delta/delta.local-min"
        rec.check(ok_min, case, "a free delta is a local minimiser of the weighted quantile error in x-space",
                  f"{inp['weights_label']}/{inp['data_label']} n={len(x)}: delta={delta:.6g}: E={e0:.8g}, E(0.98 delta)={em:.8g}, E(1.02 delta)={ep:.8g}", inp)
    # array weights: irrespective of the normalisation
    if isinstance(warg, np.ndarray):
        for c in inp.get("rescale", []):
            try:
                a2, b2, d2 = _fit(x, warg * c, method, f_delta, inp.get("delta0", 1.0))
                # fixed delta: closed form (round-off); free delta: fmin stops at xatol = 1e-4 -> optimiser tolerance 1e-3
                tol = 1e-9 if f_delta is not None else 1e-3
                ok = _rel(a2, alpha) <= tol and _rel(b2, beta) <= tol and _rel(d2, delta) <= tol
                if not ok and math.isfinite(d2) and d2 > 0:
                    # equally good minimisers (ill-conditioned design): same weighted error to 1e-9 (fixed) / 1e-6 (free delta)
                    if f_delta is not None:
                        s1, s2 = ref_sse(x, wvec, delta, alpha, beta), ref_sse(x, wvec, d2, a2, b2)
                        ok = abs(s2 - s1) <= 1e-9 * s1
                    elif ok_reg:
                        e1, e2 = ref_error(x, wvec, delta), ref_error(x, wvec, d2)
                        ok = abs(e2 - e1) <= 1e-6 * e1 and ref_sse(x, wvec, d2, a2, b2) <= ref_sse(x, wvec, d2, *ref_regression(x, wvec, d2)) * (1 + 1e-9)
                rec.check(ok, base + "/scale-free", "the result does not depend on how the weights are normalised",
                          f"weights x {c}: alpha={a2:.6g}, beta={b2:.6g}, delta={d2:.6g} vs alpha={alpha:.6g}, beta={beta:.6g}, delta={delta:.6g}", inp)
            except Exception as e:
                rec.check(False, base + "/scale-free", "fit with rescaled weights succeeds", "raised " + last_line(e), inp)
    # order of the data
    try:
        perm = np.random.default_rng(int(inp["perm_seed"])).permutation(len(x))
        if isinstance(warg, np.ndarray):
            w2 = warg[perm]
        elif isinstance(warg, (list, tuple)):
            w2 = type(warg)(np.asarray(warg, dtype=float)[perm].tolist())   # a list / tuple of weights moves with its observations too
        else:
            w2 = warg
        a2, b2, d2 = _fit(x[perm], w2, method, f_delta, inp.get("delta0", 1.0))
        ok = _rel(a2, alpha) <= 1e-9 and _rel(b2, beta) <= 1e-9 and _rel(d2, delta) <= 1e-9
        rec.check(ok, base + "/order", "the result does not depend on the order of the data",
                  f"permuted: alpha={a2:.6g}, beta={b2:.6g}, delta={d2:.6g}; original order: alpha={alpha:.6g}, beta={beta:.6g}, delta={delta:.6g}", inp)
        srt = np.argsort(x, kind="stable")
        w3 = warg[srt] if isinstance(warg, np.ndarray) else (type(warg)(np.asarray(warg, dtype=float)[srt].tolist()) if isinstance(warg, (list, tuple)) else warg)
        a3, b3, d3 = _fit(x[srt], w3, method, f_delta, inp.get("delta0", 1.0))
        ok = _rel(a3, alpha) <= 1e-9 and _rel(b3, beta) <= 1e-9 and _rel(d3, delta) <= 1e-9
        rec.check(ok, base + "/order.sorted", "the result does not depend on the order of the data (pre-sorted input)",
                  f"sorted input: alpha={a3:.6g}, beta={b3:.6g}, delta={d3:.6g}; original order: alpha={alpha:.6g}, beta={beta:.6g}, delta={delta:.6g}", inp)
    except Exception as e:
        rec.check(False, base + "/order", "fit of permuted data succeeds", "raised " + last_line(e), inp)
    # 'lsq' and 'wlsq'
    try:
        other = "lsq" if method == "wlsq" else "wlsq"
        a4, b4, d4 = _fit(x, warg, other, f_delta, inp.get("delta0", 1.0))
        rec.check((a4, b4, d4) == (alpha, beta, delta) or (_rel(a4, alpha) <= 1e-12 and _rel(b4, beta) <= 1e-12 and _rel(d4, delta) <= 1e-12),
                  base + "/methods", "'lsq' and 'wlsq' are the same estimator", f"{other}: {(a4, b4, d4)} vs {method}: {(alpha, beta, delta)}", inp)
    except Exception as e:
        rec.check(False, base + "/methods", "both method names are accepted", "raised " + last_line(e), inp)
    rec.sample({"weights": inp["weights_label"], "data": inp["data_label"], "n": len(x), "mode": mode, "alpha": alpha, "beta": beta, "delta": delta})


def sc_keyword(inp, rec):
    x = _data(inp["data"])
    rec.key(("keyword", inp["word"]))
    try:
        EW(f_delta=1.0).fit(x, method="wlsq", weights=inp["word"])
        rec.check(False, f"ew-lsq/keyword/{inp['word']}", "an unknown weights keyword raises ValueError", "accepted silently", inp)
    except ValueError:
        rec.check(True, f"ew-lsq/keyword/{inp['word']}", "", "", inp)
    except Exception as e:
        rec.check(False, f"ew-lsq/keyword/{inp['word']}", "an unknown weights keyword raises ValueError", "raised " + last_line(e), inp)
    for good in ("LINEAR", "Quadratic", "cubic"):
        try:
            a1 = _fit(x, good, "wlsq", 2.0, 1.0)
            a2 = _fit(x, good.lower(), "wlsq", 2.0, 1.0)
            rec.check(a1 == a2, f"ew-lsq/keyword/case-{good.lower()}", "weight keywords are case-insensitive", f"{a1} vs {a2}", inp)
        except Exception as e:
            rec.check(False, f"ew-lsq/keyword/case-{good.lower()}", "weight keywords accepted", "raised " + last_line(e), inp)


SCENARIOS = {"lsq": sc_lsq, "keyword": sc_keyword}

WEIGHT_SPECS = [
    ("none", None),
    ("linear", "linear"),
    ("quadratic", "quadratic"),
    ("cubic", "cubic"),
    ("array-ones", {"kind": "ones"}),
    ("array-ones-normalised", {"kind": "ones", "normalise": True}),
    ("array-random", {"kind": "random", "seed": 11}),
    ("array-random-normalised", {"kind": "random", "seed": 11, "normalise": True}),
    ("array-x2-normalised", {"kind": "x-power", "power": 2.0, "normalise": True}),
    ("array-x2-times3", {"kind": "x-power", "power": 2.0, "normalise": True, "scale": 3.0}),
    ("array-x1-times0.01", {"kind": "x-power", "power": 1.0, "scale": 0.01}),
    ("list-x2", {"kind": "x-power", "power": 2.0, "form": "list"}),
    ("tuple-x1-times1e-9", {"kind": "x-power", "power": 1.0, "scale": 1e-9, "form": "tuple"}),
    ("array-x2-times1e-12", {"kind": "x-power", "power": 2.0, "normalise": True, "scale": 1e-12}),
]


def _data_recipes(rng, thorough):
    def seed():
        return int(rng.integers(0, 2 ** 31 - 1))

    def n():
        return int(round(10 ** rng.uniform(math.log10(30), math.log10(5000))))

    out = []
    for _ in range(3 if thorough else 1):
        out += [
            ("ew", {"source": "ew", "alpha": float(rng.uniform(0.5, 3)), "beta": float(rng.uniform(0.8, 2.5)), "delta": float(rng.uniform(0.7, 4)), "n": n(), "data_seed": seed()}),
            ("weibull", {"source": "weibull", "alpha": float(rng.uniform(1, 10)), "beta": float(rng.uniform(1.2, 2.5)), "n": n(), "data_seed": seed()}),
            ("lognormal", {"source": "lognormal", "mu": float(rng.uniform(-0.5, 1.5)), "sigma": float(rng.uniform(0.2, 0.7)), "n": n(), "data_seed": seed()}),
            ("gamma", {"source": "gamma", "shape": float(rng.uniform(1.5, 5)), "scale": float(rng.uniform(0.3, 2)), "n": n(), "data_seed": seed()}),
            ("ew+zeros", {"source": "ew", "alpha": float(rng.uniform(0.5, 3)), "beta": float(rng.uniform(0.8, 2.5)), "delta": float(rng.uniform(0.7, 4)), "n": max(n(), 60),
                          "data_seed": seed(), "zeros": int(rng.integers(1, 6))}),
            ("weibull+ties", {"source": "weibull", "alpha": float(rng.uniform(1.5, 4)), "beta": float(rng.uniform(1.2, 2.5)), "n": max(n(), 100), "data_seed": seed(), "round": 1,
                              "allow_zero": False}),
            ("gamma+ties+int", {"source": "gamma", "shape": float(rng.uniform(2.5, 5)), "scale": float(rng.uniform(3, 6)), "n": max(n(), 150), "data_seed": seed(), "as_int": True}),
            ("lognormal+ties+zeros", {"source": "lognormal", "mu": float(rng.uniform(-0.3, 0.5)), "sigma": float(rng.uniform(0.5, 0.9)), "n": max(n(), 200), "data_seed": seed(),
                                      "round": 1, "allow_zero": True, "zeros": 2}),
        ]
    return out


def run(tier, seed):
    rng = np.random.default_rng(seed)
    rec = Recorder()
    thorough = tier != "quick"
    recipes = _data_recipes(rng, thorough)
    rec.group("EW least squares: weight specifications x data kinds x delta fixed/free x methods",
              f"{len(WEIGHT_SPECS)} weight specifications (None, 3 keywords, 7 arrays incl. rescaled by 3 / 0.01 / 1000) x {len(recipes)} seeded positive samples of 30..5000 points "
              "(EW, Weibull, log-normal, gamma; with zeros; with ties) x delta fixed and free x 'lsq'/'wlsq'",
              "distinct = (delta mode, weight specification, data set); non-trivial = at least 10 distinct non-zero observations")
    # deterministic, seed-independent scenario: log-normal-like data for which the x-space error decreases in delta without
    # an interior minimum (the search stops at its iteration limit)
    sc_lsq({"kind": "lsq", "data": {"source": "lognormal", "mu": 0.44578428794310215, "sigma": 0.6614127775339556, "n": 200, "data_seed": 637324987,
                                    "round": 1, "allow_zero": True, "zeros": 2},
            "data_label": "fixed:lognormal-no-interior-minimum", "weights": "linear", "weights_label": "linear", "f_delta": None, "delta0": 1.0,
            "method": "wlsq", "rescale": [], "perm_seed": 1}, rec)
    for dl, rcp in recipes:
        for wl, w in WEIGHT_SPECS:
            if isinstance(w, dict) and w["kind"] == "random" and "ties" in dl:
                continue  # ties with unequal weights: the jointly sorted order is not unique, the clause has no unique reference
            for f_delta in (float(rng.uniform(0.6, 6.0)), None):
                sc_lsq({"kind": "lsq", "data": rcp, "data_label": dl, "weights": w, "weights_label": wl, "f_delta": f_delta, "delta0": 1.0,
                        "method": "wlsq" if wl != "none" else "lsq", "rescale": [1000.0, 1.0 / 7.0], "perm_seed": int(rng.integers(0, 2 ** 31 - 1))}, rec)
    # history: two fits in a row whose samples have the same number of NON-ZERO observations but different sizes (the second
    # one contains zeros), same delta: the plotting positions of the second fit are those of ITS OWN sample
    for k, (n1, z2) in enumerate(((200, 3), (61, 1))):
        common = {"source": "ew", "alpha": 1.4, "beta": 1.3, "delta": 2.0}
        for rcp, lab in (({**common, "n": n1, "data_seed": 77 + k}, f"history:first-n={n1}"), ({**common, "n": n1 + z2, "data_seed": 99 + k, "zeros": z2}, f"history:then-n={n1 + z2}-with-{z2}-zeros")):
            sc_lsq({"kind": "lsq", "data": rcp, "data_label": lab, "weights": None, "weights_label": "none", "f_delta": 2.0, "delta0": 1.0, "method": "lsq", "rescale": [],
                    "perm_seed": 5}, rec)
    rec.group("weights keywords", "unknown keyword, upper/lower case", "distinct = keyword")
    for word in ("quartic", "none", ""):
        sc_keyword({"kind": "keyword", "word": word, "data": recipes[0][1]}, rec)
    return rec.result()


def replay(doc):
    return replay_with(SCENARIOS, doc)
