"""RTC driver for C14 - dependence functions are fitted within bounds, optimally, in dependency order
(bounded stand-in, never counted as proved).

Clauses (each one evaluation on the real `DependenceFunction.fit` / `ConditionalDistribution.fit`):

bounds       fitted parameters lie inside their declared bounds (1e-9 slack relative to max(1,|bound|)).
constraints  every declared inequality constraint c(z) >= 0 holds at the fitted parameters (slack 1e-6 * scale:
             SLSQP's own feasibility tolerance) - for the dict form and the list form.
start        the (weighted) squared residual at the fitted parameters is no larger than at the start parameters
             (checked when the start parameters are themselves admissible).
local        ... nor than at any nearby admissible perturbation (coordinate and random directions, relative step
             1e-3 and 1e-2, kept only if inside bounds and constraints). Slack "within optimiser tolerance":
             1e-3 * SSE(perturbed) + 1e-6 * sum((y-mean y)^2).
lstsq        shapes linear in their parameters, inactive bounds, no constraints: parameters equal the unique linear
             least-squares solution (numpy lstsq), 1e-3 relative to the parameter norm (the solution is computed
             by an iterative optimiser: optimiser tolerance; worst value seen over 30 seeds: 1.3e-5). Bounds count as
             inactive when the lstsq solution lies strictly inside the box.
order        chains of 2-3 functions (chain, fork, join): after ANY order of fit calls - and after a re-fit with new
             data in any order - every function has the parameters of a fit performed after all its conditioners
             were fitted: compared with fresh objects fitted in dependency order, 1e-3 relative (optimiser tolerance).
             Same through ConditionalDistribution.fit with every order of the `parameters` dict.

Weighted fits: the property does not fix the weighting convention; the driver accepts the fit if the clause holds
for sum((r/w)^2) (what curve_fit(sigma=w) minimises), sum(w r^2) or sum((w r)^2) - but not for the unweighted
residual, and the weighted scenarios are built so that these optima differ visibly.

A RuntimeError of `fit` ("if the fit fails", documented) makes the scenario not applicable (not counted).
"""

import itertools

import numpy as np

from virocon import DependenceFunction, ExponentiatedWeibullDistribution
from virocon.distributions import ConditionalDistribution

from vf.rt._common_C import Recorder, jsonable, last_line, replay_with


# ----------------------------------------------------------------------------------------------
# shapes (module level: recipes refer to them by name)
# ----------------------------------------------------------------------------------------------
def _lin2(x, a, b):
    return a + b * x


def _linear2(x, a=0, b=1):  # predefined (Windmeier)
    return a + b * x


def _poly3(x, a, b, c):
    return a + b * x + c * x**2


def _sqrt2(x, a, b):
    return a + b * np.sqrt(x)


def _power3(x, a, b, c):  # predefined (DNVGL)
    return a + b * x**c


def _exp3(x, a, b, c):  # predefined (DNVGL)
    return a + b * np.exp(c * x)


def _asymdecrease3(x, a, b, c):  # predefined (OMAE2020)
    return a + b / (1 + c * x)


def _lnsquare2(x, a, b, c):  # predefined (OMAE2020); c is unused by the formula, as in virocon
    return np.log(a + b * np.sqrt(np.divide(x, 9.81)))


def _logistics4(x, a=1, b=1, c=-1, d=1):  # predefined (OMAE2020)
    return a + b / (1 + np.exp(c * (x - d)))


def _limited_growth2(x, a=0.08, b=1):  # predefined (Windmeier)
    return a * (1 - np.exp(-b * x))


def _alpha3(x, a, b, c, d_of_x):  # predefined (OMAE2020), uses another dependence function
    return (a + b * x**c) / 2.0445 ** (1 / d_of_x(x))


def _scaled_lin(x, a, b, s_of_x):
    return (a + b * x) * s_of_x(x)


def _offset_lin(x, a, b, o_of_x):
    return a + b * x + o_of_x(x)


def _join_lin(x, a, b, s_of_x, o_of_x):
    return (a + b * x) * s_of_x(x) + o_of_x(x)


# name -> (function, basis for lstsq or None)
SHAPES = {
    "lin2": (_lin2, lambda x: np.c_[np.ones_like(x), x]),
    "linear2": (_linear2, lambda x: np.c_[np.ones_like(x), x]),
    "poly3": (_poly3, lambda x: np.c_[np.ones_like(x), x, x**2]),
    "sqrt2": (_sqrt2, lambda x: np.c_[np.ones_like(x), np.sqrt(x)]),
    "power3": (_power3, None),
    "exp3": (_exp3, None),
    "asymdecrease3": (_asymdecrease3, None),
    "lnsquare2": (_lnsquare2, None),
    "logistics4": (_logistics4, None),
    "limited_growth2": (_limited_growth2, None),
    "alpha3": (_alpha3, None),
    "scaled_lin": (_scaled_lin, None),
    "offset_lin": (_offset_lin, None),
    "join_lin": (_join_lin, None),
}

WEIGHTS = {
    "y": lambda x, y: np.asarray(y, dtype=float),
    "x": lambda x, y: np.asarray(x, dtype=float),
    "inv_x": lambda x, y: 1.0 / np.asarray(x, dtype=float),
    "steep": lambda x, y: 0.05 + (np.asarray(x, dtype=float) / np.max(x)) ** 3,
}


def _constraints_of(spec):
    """spec: {"form": "dict"|"list", "items": [{"coef": [...], "rhs": r}]}  meaning  rhs - coef.z >= 0."""
    if spec is None:
        return None, []
    funs = []
    for it in spec["items"]:
        coef = np.array(it["coef"], dtype=float)
        rhs = float(it["rhs"])
        funs.append(lambda z, coef=coef, rhs=rhs: rhs - float(np.dot(coef, np.asarray(z, dtype=float))))
    cons = [{"type": "ineq", "fun": f} for f in funs]
    if spec["form"] == "dict":
        assert len(cons) == 1
        return cons[0], funs
    return cons, funs


def _xy(spec):
    rng = np.random.default_rng(spec["seed"])
    n = spec["n"]
    lo, hi = spec["xrange"]
    x = np.sort(lo + (hi - lo) * (np.arange(n) + rng.uniform(0.1, 0.9, n)) / n)
    if spec.get("int_x"):
        x = np.arange(1, n + 1, dtype=np.int64)  # support points that are whole numbers in an integer-typed array
    return rng, x


def _sse_variants(f, p, x, y, w):
    r = f(x, *p) - y
    if w is None:
        return [float(np.sum(r**2))]
    return [float(np.sum((r / w) ** 2)), float(np.sum(w * r**2)), float(np.sum((w * r) ** 2))]


# ----------------------------------------------------------------------------------------------
# single function
# ----------------------------------------------------------------------------------------------
def _eval_single(inputs):
    case = inputs["case"]
    fn, basis = SHAPES[inputs["shape"]]
    rng, x = _xy(inputs)
    true = inputs["true"]
    clean = fn(x, *true)
    y = clean + inputs["noise"] * (np.max(np.abs(clean)) + 1e-3) * rng.standard_normal(len(x))
    bounds = inputs.get("bounds")
    bnds = None if bounds is None else [tuple(b) for b in bounds]
    cons, cfuns = _constraints_of(inputs.get("constraints"))
    wname = inputs.get("weights")
    kw = {}
    if wname is not None:
        kw["weights"] = WEIGHTS[wname]
    if wname is not None:
        w_chk = WEIGHTS[wname](x, y)
        if not (np.all(np.isfinite(w_chk)) and np.all(w_chk > 0)):
            return []  # degenerate weights (non-positive): no weighted residual is defined - not applicable
    dep = DependenceFunction(fn, bounds=bnds, constraints=cons, **kw)
    p0 = np.array(list(dep.parameters.values()), dtype=float)
    names = list(dep.parameters.keys())
    # x is an ndarray (ConditionalDistribution.fit passes np.array(conditioning_values)); y may be a list (it passes one)
    xin, yin = (x, y) if inputs.get("as_list", False) is False else (x, y.tolist())
    try:
        dep.fit(xin, yin)
    except NotImplementedError as e:
        if cons is not None and wname is not None:
            return []  # weighted constrained fitting is declared not implemented by the library
        return [(case + "/exception", "fit must return", False, last_line(e))]
    except RuntimeError:
        return []  # documented outcome "if the fit fails": not applicable
    except Exception as e:
        return [(case + "/exception", "fitting a dependence function yields parameters", False, last_line(e))]
    checks = []
    p = np.array([dep.parameters[k] for k in names], dtype=float)
    ok_names = list(dep.parameters.keys()) == names and np.all(np.isfinite(p))

    # bounds
    if bnds is not None:
        bad = []
        for k, (lo, hi) in enumerate(bnds):
            if lo is not None and p[k] < lo - 1e-9 * max(1, abs(lo)):
                bad.append(f"{names[k]}={p[k]!r} < lower {lo}")
            if hi is not None and p[k] > hi + 1e-9 * max(1, abs(hi)):
                bad.append(f"{names[k]}={p[k]!r} > upper {hi}")
        checks.append((case + "/bounds", "parameters inside their declared bounds", ok_names and not bad, "; ".join(bad) or f"p={p.tolist()}"))
    # constraints
    if cfuns:
        vals = [f(p) for f in cfuns]
        scale = max(1.0, float(np.max(np.abs(p))))
        bad = [f"c_{i}(z)={v!r} < 0" for i, v in enumerate(vals) if not v >= -1e-6 * scale]
        checks.append((case + "/constraints", "parameters satisfy their declared inequality constraints", not bad,
                       ("; ".join(bad) + f" at fitted {dict(zip(names, p.tolist()))}") if bad else f"c={vals}"))
    w = None if wname is None else WEIGHTS[wname](x, y)
    tss = float(np.sum((y - np.mean(y)) ** 2)) + 1e-300
    s_fit = _sse_variants(fn, p, x, y, w)
    s_0 = _sse_variants(fn, p0, x, y, w)

    def admissible(q):
        if bnds is not None:
            for k, (lo, hi) in enumerate(bnds):
                if (lo is not None and q[k] < lo) or (hi is not None and q[k] > hi):
                    return False
        return all(f(q) >= 0 for f in cfuns)

    if admissible(p0):  # an inadmissible start may of course have a smaller residual than the constrained optimum
        ok = any(a <= b * (1 + 1e-9) + 1e-12 * tss for a, b in zip(s_fit, s_0))
        checks.append((case + "/start", "squared residual no larger than at the (admissible) start parameters", ok, f"SSE(fit)={s_fit}, SSE(start)={s_0}"))

    # nearby admissible perturbations

    prng = np.random.default_rng(inputs["seed"] + 1)
    dirs = [s * np.eye(len(p))[k] for k in range(len(p)) for s in (1.0, -1.0)]
    dirs += [v / np.linalg.norm(v) for v in prng.standard_normal((6, len(p)))]
    worst = [None] * len(s_fit)
    n_adm = 0
    with np.errstate(all="ignore"):
        for h in (1e-3, 1e-2):
            for dvec in dirs:
                q = p + h * dvec * np.maximum(1.0, np.abs(p))
                if not admissible(q):
                    continue
                s_q = _sse_variants(fn, q, x, y, w)
                if not np.all(np.isfinite(s_q)):
                    continue
                n_adm += 1
                for i, (a, b) in enumerate(zip(s_fit, s_q)):
                    exc = a - (b * (1 + 1e-3) + 1e-6 * tss * (1 if w is None else [np.mean(1 / w**2), np.mean(w), np.mean(w**2)][i]))
                    if worst[i] is None or exc > worst[i][0]:
                        worst[i] = (exc, q.tolist(), a, b)
    if n_adm:
        ok = any(wv[0] <= 0 for wv in worst)
        best = min(worst, key=lambda t: t[0])
        checks.append((case + "/local", "squared residual no larger than at any nearby admissible perturbation", ok,
                       f"SSE(fit)={best[2]!r} > SSE({best[1]})={best[3]!r}" if not ok else f"{n_adm} admissible perturbations"))
    # linear least squares
    if basis is not None and not cfuns and inputs.get("bounds_inactive", True):
        A = basis(x)
        cands = [None] if w is None else [1 / w, np.sqrt(w), w]
        errs = []
        inactive = True
        for sw in cands:
            Aw, yw = (A, y) if sw is None else (A * sw[:, None], y * sw)
            sol = np.linalg.lstsq(Aw, yw, rcond=None)[0]
            errs.append(float(np.linalg.norm(p - sol) / max(1e-12, np.linalg.norm(sol))))
            if bnds is not None:  # "inactive bounds": the unconstrained solution lies strictly inside the box
                for k, (lo, hi) in enumerate(bnds):
                    m = 1e-6 * max(1.0, abs(sol[k]))
                    if (lo is not None and sol[k] <= lo + m) or (hi is not None and sol[k] >= hi - m):
                        inactive = False
        if inactive:
            checks.append((case + "/lstsq", "linear shapes (inactive bounds, no constraints): the unique linear least-squares solution",
                           min(errs) <= 1e-3, f"relative distance to the lstsq solution {min(errs):.3g} (fitted {p.tolist()})"))
    return checks


# ----------------------------------------------------------------------------------------------
# chains
# ----------------------------------------------------------------------------------------------
# node: (shape, {kwarg: index of conditioner node}, bounds, weights)
DAGS = {
    "chain2_scaled": [("logistics4", {}, [(0, None), (0, None), (None, 0), (0, None)], None),
                      ("scaled_lin", {"s_of_x": 0}, None, None)],
    "chain2_offset": [("poly3", {}, None, None), ("offset_lin", {"o_of_x": 0}, None, None)],
    "chain2_omae": [("logistics4", {}, [(0, None), (0, None), (None, 0), (0, None)], "y"),
                    ("alpha3", {"d_of_x": 0}, [(0, None), (0, None), (None, None)], "y")],
    "chain3": [("lin2", {}, None, None), ("scaled_lin", {"s_of_x": 0}, None, None), ("offset_lin", {"o_of_x": 1}, None, None)],
    "fork3": [("sqrt2", {}, None, None), ("scaled_lin", {"s_of_x": 0}, None, None), ("offset_lin", {"o_of_x": 0}, None, None)],
    "join3": [("lin2", {}, None, None), ("sqrt2", {}, None, None), ("join_lin", {"s_of_x": 0, "o_of_x": 1}, None, None)],
}
TRUE = {
    "logistics4": [0.6, 2.2, -0.9, 4.5], "poly3": [1.0, 0.4, 0.05], "lin2": [1.2, 0.3], "sqrt2": [0.8, 0.9],
    "scaled_lin": [0.7, 0.25], "offset_lin": [0.5, 0.35], "alpha3": [0.4, 0.12, 1.4], "join_lin": [0.6, 0.2],
}


def _build(dag):
    nodes = []
    for shape, deps, bnds, wname in DAGS[dag]:
        kw = {k: nodes[j] for k, j in deps.items()}
        if wname is not None:
            kw["weights"] = WEIGHTS[wname]
        nodes.append(DependenceFunction(SHAPES[shape][0], bounds=bnds, **kw))
    return nodes


def _chain_data(dag, seed, n, noise):
    """targets y_i for every node, generated from true functions + noise (round r gets its own data)."""
    rng = np.random.default_rng(seed)
    x = np.sort(rng.uniform(1.0, 9.0, n))
    truth = []
    ys = []
    for shape, deps, _, _ in DAGS[dag]:
        fn = SHAPES[shape][0]
        kw = {k: truth[j] for k, j in deps.items()}
        t = (lambda xx, fn=fn, kw=kw, pars=TRUE[shape]: fn(xx, *pars, **kw))
        truth.append(t)
        clean = t(x)
        ys.append(clean * (1 + noise * rng.standard_normal(n)))
    return x, ys


def _topo_fit(nodes, x, ys):
    for nd, y in zip(nodes, ys):  # DAGS are declared in dependency order
        nd.fit(x, y)


def _params(nodes):
    return [np.array(list(nd.parameters.values()), dtype=float) for nd in nodes]


def _eval_chain(inputs):
    case = inputs["case"]
    dag = inputs["dag"]
    rounds = inputs["orders"]  # list of fit-call orders, one per round (first fit, re-fit, ...)
    datas = [_chain_data(dag, inputs["seed"] + 17 * r, inputs["n"], inputs["noise"]) for r in range(len(rounds))]
    try:
        ref = _build(dag)
        for x, ys in datas:
            _topo_fit(ref, x, ys)
    except RuntimeError:
        return []
    try:
        nodes = _build(dag)
        for order, (x, ys) in zip(rounds, datas):
            for i in order:
                if inputs.get("as_list"):
                    nodes[i].fit(x, ys[i].tolist())
                else:
                    nodes[i].fit(x, ys[i])
    except RuntimeError:
        return []  # a premature fit with not yet fitted conditioners failed to converge: documented RuntimeError
    except Exception as e:
        return [(case, "fit calls in any order must succeed", False, f"orders {rounds}: {last_line(e)}")]
    checks = []
    x, ys = datas[-1]
    for i, (a, b) in enumerate(zip(_params(nodes), _params(ref))):
        err = float(np.max(np.abs(a - b) / np.maximum(1.0, np.abs(b))))
        # a function and its reference must also describe the same curve
        fa, fb = np.asarray(nodes[i](x), float), np.asarray(ref[i](x), float)
        ferr = float(np.max(np.abs(fa - fb) / np.maximum(1e-12, np.abs(fb))))
        checks.append((case, "a function using other dependence functions ends up with the parameters of a fit performed after all of those were fitted, whatever the order",
                       err <= 1e-3, f"node {i} ({DAGS[dag][i][0]}): fit-call orders {rounds} give {a.tolist()}, dependency order gives {b.tolist()} (max rel. diff {err:.3g}, curve diff {ferr:.3g})"))
    return checks


def _eval_conddist(inputs):
    """OMAE2020 V-Hs structure through ConditionalDistribution.fit with a permuted `parameters` dict."""
    case = inputs["case"]
    rng = np.random.default_rng(inputs["seed"])
    k = inputs["n_intervals"]
    centers = 1.0 + 2.0 * np.arange(k)
    bounds = [(c - 1.0, c + 1.0) for c in centers]
    beta_t = lambda v: _logistics4(v, 0.6, 2.0, -0.6, 7.0)  # noqa: E731
    alpha_t = lambda v: _alpha3(v, 0.4, 0.1, 1.5, beta_t)  # noqa: E731
    data = [ExponentiatedWeibullDistribution(alpha=float(alpha_t(c)), beta=float(beta_t(c)), delta=5).draw_sample(
        inputs["n_per_interval"], random_state=rng) for c in centers]

    def build(order):
        beta_dep = DependenceFunction(_logistics4, [(0, None), (0, None), (None, 0), (0, None)], weights=WEIGHTS["y"])
        alpha_dep = DependenceFunction(_alpha3, [(0, None), (0, None), (None, None)], d_of_x=beta_dep, weights=WEIGHTS["y"])
        deps = {"alpha": alpha_dep, "beta": beta_dep}
        return ConditionalDistribution(ExponentiatedWeibullDistribution(f_delta=5), {nm: deps[nm] for nm in order}), deps

    out = {}
    try:
        for order in (("beta", "alpha"), ("alpha", "beta")):
            cd, deps = build(order)
            for _ in range(inputs.get("rounds", 1)):
                cd.fit(data, centers, bounds, "wlsq", "quadratic")
            out[order] = (cd, deps)
    except RuntimeError:
        return []
    except Exception as e:
        return [(case, "ConditionalDistribution.fit must succeed for every order of the parameters dict", False, last_line(e))]
    checks = []
    # reference: stand-alone fit of fresh dependence functions, conditioner first, to the (reference value, estimate) pairs
    cd0 = out[("beta", "alpha")][0]
    ys = {nm: [pp[nm] for pp in cd0.parameters_per_interval] for nm in ("alpha", "beta")}
    try:
        _, rdeps = build(("beta", "alpha"))
        for _ in range(inputs.get("rounds", 1)):
            rdeps["beta"].fit(centers, ys["beta"])
            rdeps["alpha"].fit(centers, ys["alpha"])
    except RuntimeError:
        return []
    for order, (cd, deps) in out.items():
        for nm in ("alpha", "beta"):
            a = np.array(list(cd.conditional_parameters[nm].parameters.values()), float)
            b = np.array(list(rdeps[nm].parameters.values()), float)
            err = float(np.max(np.abs(a - b) / np.maximum(1.0, np.abs(b))))
            checks.append((case, "result independent of the declaration order of the parameters (within optimiser tolerance)", err <= 1e-3,
                           f"parameters dict order {order}: {nm} = {a.tolist()}, dependency-order reference {b.tolist()} (max rel. diff {err:.3g})"))
    return checks


def evaluate(inputs):
    kind = inputs["kind"]
    with np.errstate(all="ignore"):
        if kind == "single":
            return _eval_single(inputs)
        if kind == "chain":
            return _eval_chain(inputs)
        if kind == "conddist":
            return _eval_conddist(inputs)
    raise ValueError(kind)


def replay(doc):
    return replay_with(evaluate, doc)


# ----------------------------------------------------------------------------------------------
# generators
# ----------------------------------------------------------------------------------------------
def _single(case, shape, true, seed, n, xrange, noise=0.01, bounds=None, constraints=None, weights=None, as_list=False, bounds_inactive=True):
    return {"kind": "single", "case": case, "shape": shape, "true": true, "seed": int(seed), "n": int(n), "xrange": list(xrange),
            "noise": noise, "bounds": bounds, "constraints": constraints, "weights": weights, "as_list": as_list,
            "bounds_inactive": bounds_inactive}


def anchors():
    """seed-independent scenarios; the ones named in DESIGN.md first."""
    out = []
    # constraint active at the unconstrained optimum (true slope 2, declared b <= 1), dict and list form
    for form in ("dict", "list"):
        out.append(_single(f"constraint/active/{form}", "lin2", [2.0, 2.0], 11, 10, (0.5, 8), 0.002,
                           bounds=[[None, None], [None, None]], constraints={"form": form, "items": [{"coef": [0, 1], "rhs": 1.0}]}))
        out.append(_single(f"constraint/active/{form}", "poly3", [1.0, 0.5, 0.2], 12, 12, (0.5, 5), 0.002,
                           constraints={"form": form, "items": [{"coef": [0, 1, 1], "rhs": 0.4}]}))
        out.append(_single(f"constraint/inactive/{form}", "lin2", [2.0, 2.0], 13, 10, (0.5, 8), 0.002,
                           bounds=[[None, None], [None, None]], constraints={"form": form, "items": [{"coef": [0, 1], "rhs": 5.0}]}))
    out.append(_single("constraint/active/list2", "lin2", [2.0, 2.0], 14, 10, (0.5, 8), 0.002, bounds=[[0, None], [0, None]],
                       constraints={"form": "list", "items": [{"coef": [0, 1], "rhs": 1.0}, {"coef": [-1, 0], "rhs": -0.5}]}))
    # fixed grid: linear shapes x form x active/inactive x bounds kind x number of support points (seed-independent;
    # the constrained path is a different optimiser, so it gets its own exhaustive little grid)
    grid_shapes = {"lin2": ([1.5, 0.8], (0.5, 8)), "sqrt2": ([0.8, 1.2], (0.5, 9)), "poly3": ([1.0, 0.5, 0.1], (0.5, 5))}
    j = 0
    for shape, (true, xr) in grid_shapes.items():
        npar = len(true)
        for form in ("dict", "list"):
            for act in ("active", "inactive"):
                for bk in ("none", "allNone", "lower"):
                    for n in (5, 12, 20):
                        j += 1
                        coef = [0.0] * npar
                        coef[1] = 1.0
                        rhs = true[1] - 0.4 if act == "active" else true[1] + 2.0
                        bounds = {"none": None, "allNone": [[None, None]] * npar, "lower": [[-5.0, None]] * npar}[bk]
                        out.append(_single(f"constraint/{act}/{form}", shape, true, 100 + j, n, xr, 0.01, bounds=bounds,
                                           constraints={"form": form, "items": [{"coef": coef, "rhs": rhs}]}, as_list=bool(j % 2)))
                        if j % 4 == 0 and n <= 12:
                            out.append(dict(out[-1], int_x=True))
    # predefined shapes with their predefined bounds
    b3 = [[0, None], [0, None], [None, None]]
    out.append(_single("predefined/power3", "power3", [1.5, 0.8, 1.3], 21, 12, (0.5, 8), bounds=b3))
    out.append(_single("predefined/exp3", "exp3", [0.1, 0.3, -0.4], 22, 12, (0.2, 6), bounds=b3))
    out.append(_single("predefined/asymdecrease3", "asymdecrease3", [0.05, 0.3, 0.4], 23, 12, (0.5, 8), bounds=b3))
    out.append(_single("predefined/lnsquare2", "lnsquare2", [1.2, 3.0, 1.0], 24, 12, (0.5, 8), bounds=b3))
    out.append(_single("predefined/logistics4", "logistics4", [0.6, 2.2, -0.9, 4.5], 25, 14, (0.5, 12),
                       bounds=[[0, None], [0, None], [None, 0], [0, None]], weights="y"))
    out.append(_single("predefined/limited_growth2", "limited_growth2", [0.07, 0.6], 26, 12, (0.3, 8), bounds=[[0, 1], [0, None]]))
    out.append(_single("predefined/linear2", "linear2", [0.4, 0.9], 27, 10, (0.3, 8), bounds=[[0, None], [0, None]]))
    # active bounds: unconstrained optimum outside the box
    out.append(_single("bounds/active/upper", "lin2", [2.0, 2.0], 31, 10, (0.5, 8), bounds=[[None, None], [None, 1.5]], bounds_inactive=False))
    out.append(_single("bounds/active/lower", "lin2", [0.5, 0.3], 32, 10, (0.5, 8), bounds=[[1.0, None], [None, None]], bounds_inactive=False))
    out.append(_single("bounds/active/box", "poly3", [2.0, -0.5, 0.2], 33, 15, (0.5, 6), bounds=[[0, 3], [0, 2], [0.5, 2]], bounds_inactive=False))
    return out


def gen_single_random(rng, count):
    bkinds = ["none", "allNone", "lower", "upper", "box", "mixed"]
    for i in range(count):
        shape = ["lin2", "poly3", "sqrt2", "exp3", "logistics4", "power3", "asymdecrease3", "limited_growth2"][i % 8]
        npar = {"lin2": 2, "poly3": 3, "sqrt2": 2, "exp3": 3, "logistics4": 4, "power3": 3, "asymdecrease3": 3, "limited_growth2": 2}[shape]
        if shape == "lin2":
            true, xr = [rng.uniform(0.2, 3), rng.uniform(0.1, 2)], (0.3, 10)
        elif shape == "poly3":
            true, xr = [rng.uniform(0.2, 3), rng.uniform(-0.5, 1), rng.uniform(0.02, 0.3)], (0.3, 6)
        elif shape == "sqrt2":
            true, xr = [rng.uniform(0.2, 3), rng.uniform(0.2, 2)], (0.3, 10)
        elif shape == "exp3":
            true, xr = [rng.uniform(0.1, 2), rng.uniform(0.3, 2), rng.uniform(-1.2, 0.4)], (0.1, 3)
        elif shape == "logistics4":
            true, xr = [rng.uniform(0.3, 1.5), rng.uniform(1, 3), rng.uniform(-1.5, -0.5), rng.uniform(2, 6)], (0.3, 10)
        elif shape == "power3":
            true, xr = [rng.uniform(0.5, 2), rng.uniform(0.3, 1.5), rng.uniform(0.7, 1.6)], (0.5, 8)
        elif shape == "asymdecrease3":
            true, xr = [rng.uniform(0.02, 0.2), rng.uniform(0.2, 0.6), rng.uniform(0.2, 0.8)], (0.5, 8)
        else:
            true, xr = [rng.uniform(0.05, 0.5), rng.uniform(0.3, 1.2)], (0.3, 8)
        true = [float(t) for t in true]
        n = int(rng.integers(max(3, npar), 21))
        bk = bkinds[(i // 8) % 6]
        p0 = [1.0] * npar
        if shape == "logistics4":
            p0 = [1, 1, -1, 1]
        if shape == "limited_growth2":
            p0 = [0.08, 1]

        def box(k, kind):
            lo = min(true[k], p0[k]) - rng.uniform(0.5, 2)
            hi = max(true[k], p0[k]) + rng.uniform(0.5, 2)
            return {"lower": [float(lo), None], "upper": [None, float(hi)], "box": [float(lo), float(hi)], "allNone": [None, None]}[kind]

        if bk == "none":
            bounds = None
        elif bk == "mixed":
            bounds = [box(k, ["lower", "upper", "box", "allNone"][(k + i) % 4]) for k in range(npar)]
        else:
            bounds = [box(k, bk) for k in range(npar)]
        linear = SHAPES[shape][1] is not None
        wname = [None, None, "steep", "y", "x", "inv_x"][(i // 3) % 6]
        noise = 0.05 if wname is not None else 0.01
        tag = "lin" if linear else "nonlin"
        case = f"random/{tag}/{'w' if wname else 'u'}/b_{bk}"
        cons = None
        yield _single(case, shape, true, int(rng.integers(0, 2**31)), n, xr, noise, bounds, cons, wname, as_list=bool(i % 7 == 3))


def gen_chains(rng, thorough):
    """every DAG x every order of fit calls x (first fit | fit + re-fit in every order)."""
    reps = 8 if thorough else 1
    for dag, spec in DAGS.items():
        k = len(spec)
        perms = list(itertools.permutations(range(k)))
        for r in range(reps):
            seed = int(rng.integers(0, 2**31))
            n = int(rng.integers(6, 21))
            for p1 in perms:
                yield {"kind": "chain", "case": f"order/{dag}/fit", "dag": dag, "orders": [list(p1)], "seed": seed, "n": n, "noise": 0.01,
                       "as_list": bool(r % 2)}
                for p2 in perms:
                    yield {"kind": "chain", "case": f"order/{dag}/refit", "dag": dag, "orders": [list(p1), list(p2)], "seed": seed, "n": n,
                           "noise": 0.01, "as_list": bool(r % 2)}


def gen_conddist(rng, count):
    for i in range(count):
        yield {"kind": "conddist", "case": "order/conddist/" + ("refit" if i % 2 else "fit"), "seed": int(rng.integers(0, 2**31)),
               "n_intervals": int(rng.integers(6, 11)), "n_per_interval": int(rng.integers(300, 800)), "rounds": 1 + i % 2}


def _key(inp):
    return tuple(sorted((k, str(v)) for k, v in inp.items()))


def run(tier, seed):
    thorough = tier == "thorough"
    rng = np.random.default_rng(seed)
    rec = Recorder()
    rule = ("distinct = full scenario recipe (shape, data seed, n, bounds, constraints, weights / DAG, call orders); "
            "non-trivial = the fit returned (no documented RuntimeError); one evaluation = one clause on one fitted function")

    def feed(gen):
        first = True
        for inp in gen:
            checks = evaluate(inp)
            rec.book(checks, inp, key=_key(inp), nontrivial=bool(checks), sample=first)
            first = False

    rec.begin("anchors: predefined shapes with predefined bounds; active/inactive constraints (dict, list); active bounds",
              f"{len(anchors())} fixed scenarios", rule)
    feed(anchors())
    cnt = 6000 if thorough else 240
    rec.begin("random polynomial/exponential/logistic/power shapes", f"{cnt} scenarios: 3..20 points, bounds none/all-None/lower/upper/box/mixed, "
              "weights none/steep/y/x/1/x, inactive constraints (dict/list), ndarray and list inputs", rule)
    feed(gen_single_random(rng, cnt))
    rec.begin("chains (chain, fork, join; 2-3 functions)", "ALL orders of fit calls x (fit | fit followed by re-fit in ALL orders) for 6 DAGs"
              + (" x 8 data sets" if thorough else ""), rule)
    feed(gen_chains(rng, thorough))
    cc = 40 if thorough else 4
    rec.begin("ConditionalDistribution.fit with both orders of the parameters dict (OMAE2020 V-Hs structure)", f"{cc} data sets, fit and re-fit", rule)
    feed(gen_conddist(rng, cc))
    return jsonable(rec.result())
