"""RTC driver C15 - HDC coordinates are exactly the boundary cells of the enclosed region.

HDC part (real HighestDensityContour; the enclosed region is observed through the real cell_averaged_joint_pdf and the
real cumsum_biggest_until on the contour's own grid, cross-checked against the reported fm):
  coordinates-exact  the returned coordinates, all parts together, are the centres of the boundary cells (region cells with
                     one of the 3^n - 1 neighbours outside the region or the grid; own numpy neighbour test), each exactly once
  container          one connected 2-D region -> one (N,2) array; one 3-D region -> (N,3); several regions -> one coordinate
                     set per region holding exactly that region's boundary cells
  order              single 2-D region: the (N,2) array is what sort_points_to_form_continuous_line(x, y,
                     search_for_optimal_start=True) returns for the boundary centres
Sorter part (real virocon.utils.sort_points_to_form_continuous_line, both values of search_for_optimal_start):
  permutation        the output is a permutation of the input points (nothing lost, nothing duplicated)
on regular, irregularly spaced and clustered planar point sets.
Case ids name clause x structural class only (never a random number): the class representatives in the seed-independent
core decide whether an id fails, random members of the same class report under the same id.
"""
import time
import warnings

import numpy as np

from virocon.utils import sort_points_to_form_continuous_line

from . import _common_A as A

CLAUSES = {
    "runs": "a contour is returned",
    "coordinates-exact": "the coordinates returned by a highest-density contour are exactly the centres of the boundary cells of the enclosed region, each exactly once, for every grid including anisotropic cell sizes",
    "container": "a single connected 2-D region is returned as one (N,2) array; several disconnected regions are returned as one coordinate set per region",
    "order": "for a single connected 2-D region the coordinates are in the order produced by the line-sorting utility",
    "permutation": "the line-sorting utility returns a permutation of its input for any planar point set (no point lost or duplicated)",
}


def _rows_multiset(a):
    a = np.asarray(a, dtype=float)
    return sorted(map(tuple, a.tolist()))


def check_hdc(inputs, book):
    alpha = float(inputs["alpha"])
    recipe = inputs["recipe"]
    n_dim = len(recipe["dims"])
    grp = f"hdc-{n_dim}d"

    def ev(ok, tag, detail, sub=None):
        case = f"C15/{grp}/{tag}" + (f"/{sub}" if sub else "")
        return book.ev(grp, ok, case, CLAUSES[tag], f"[{inputs.get('label')}] " + str(detail), inputs)

    try:
        model, con, msgs = A.hdc_run(inputs)
        centers = [np.asarray(c, dtype=float) for c in con.cell_center_coordinates]
        deltas = [float(d) for d in con.deltas]
        co = con.coordinates
    except Exception:
        ev(False, "runs", "raised: " + A.last_tb_line())
        return
    ev(True, "runs", "")
    f, cell_prob, region, reached, last = A.hdc_region(con, alpha)
    # the observed region must be the one the contour was built from: its least dense cell has density fm
    if reached:
        fmin = float(f[region].min())
        if not abs(float(con.fm) - fmin) <= 1e-12 * fmin:
            # the region recomputed with the contour's OWN cell_averaged_joint_pdf / cumsum_biggest_until is not the one the
            # coordinates were taken from (on the unchanged library the two never differ): the coordinates cannot be the
            # boundary cells of the enclosed region
            ev(False, "coordinates-exact", f"the contour reports fm = {float(con.fm)!r}, but the region of content 1-alpha determined by its own cell probabilities "
               f"has least dense cell {fmin!r}: the coordinates were taken from another region", "region-used")
            return
    B = A.boundary_mask(region)
    comps_b = A.components(B)
    comps_r = A.components(region)
    n_b = int(B.sum())

    def centres_of(idx):
        return np.stack([centers[d][idx[:, d]] for d in range(n_dim)], axis=1)

    expected_all = centres_of(np.argwhere(B))
    # ---- flatten what was returned
    single = isinstance(co, np.ndarray) and co.dtype != object and co.ndim == 2
    try:
        if single:
            parts = [np.asarray(co, dtype=float)]
        else:
            parts = [np.stack([np.asarray(a, dtype=float) for a in part], axis=1) for part in co]
        returned_all = np.concatenate(parts, axis=0)
        okshape = returned_all.ndim == 2 and returned_all.shape[1] == n_dim
    except Exception:
        okshape = False
    if not okshape:
        ev(False, "container", f"coordinates is neither an (N,{n_dim}) array nor a list of per-region coordinate sets: {type(co).__name__}")
        return

    ratio = max(deltas) / min(deltas)
    iso = "isotropic" if ratio <= 1 + 1e-9 else "anisotropic"
    sub_single = f"single-region-{iso}" if n_dim == 2 else "single-region"
    sub = sub_single if len(comps_b) == 1 else "several-regions"

    # ---- coordinates-exact
    ret = _rows_multiset(returned_all)
    exp = _rows_multiset(expected_all)
    if ret == exp:
        ev(True, "coordinates-exact", "", sub)
    else:
        sret, sexp = set(ret), set(exp)
        ev(False, "coordinates-exact",
           f"grid {[len(c) for c in centers]}, cell sizes {deltas}: region of {int(region.sum())} cells has {n_b} boundary cells, {len(ret)} coordinates "
           f"returned: {len(sexp - sret)} boundary cells missing, {len(sret - sexp)} returned points are no boundary cell, "
           f"{len(ret) - len(sret)} duplicates", sub)

    # ---- container
    if len(comps_b) == len(comps_r):  # no holes: boundary components correspond to regions one to one
        if len(comps_r) == 1:
            ev(single and co.shape[1] == n_dim, "container", f"one connected region but coordinates is {type(co).__name__} "
               f"{getattr(co, 'shape', len(co))}", "single-region")
        else:
            okc = (not single) and len(parts) == len(comps_r)
            if okc:
                exp_sets = sorted(_rows_multiset(centres_of(c)) for c in comps_b)
                ret_sets = sorted(_rows_multiset(p) for p in parts)
                okc = exp_sets == ret_sets
            ev(okc, "container", f"{len(comps_r)} disconnected regions but {1 if single else len(parts)} coordinate set(s) returned / sets differ from the regions' boundaries",
               "several-regions")
    else:
        book.sample({"label": inputs.get("label"), "note": f"region with holes ({len(comps_r)} regions, {len(comps_b)} boundary components): container clause not evaluated"})

    # ---- order (2-D single region)
    if n_dim == 2 and len(comps_b) == 1 and single and n_b <= 700:  # the sorter is O(N^2); larger boundaries are not re-sorted here
        idx = np.argwhere(B)  # row-major = the order of np.nonzero
        x, y = centers[0][idx[:, 0]], centers[1][idx[:, 1]]
        xx, yy = sort_points_to_form_continuous_line(x, y, search_for_optimal_start=True)
        exp_sorted = np.array([xx, yy]).T
        ev(co.shape == exp_sorted.shape and bool(np.array_equal(co, exp_sorted)), "order",
           f"coordinates {co.shape} differ from the sorter's output {exp_sorted.shape} on the boundary centres")

    if n_b >= 8 and reached and min(len(c) for c in centers) >= 10:
        book.nontrivial((inputs.get("label"), A.struct_id([d.get("cond") for d in recipe["dims"]]), tuple(d["family"] for d in recipe["dims"]),
                         "%.3e" % alpha, tuple(len(c) for c in centers)))
    book.sample({"label": inputs.get("label"), "alpha": alpha, "grid": [len(c) for c in centers], "deltas": deltas, "regions": len(comps_r),
                 "boundary_cells": n_b, "returned": int(len(returned_all)), "runtime_warning": bool(msgs)})


# ------------------------------------------------------------------------------------------------ sorter


def make_points(spec):
    kind = spec["kind"]
    rng = np.random.default_rng(int(spec.get("seed", 0)))
    n = int(spec.get("n", 10))
    if kind == "circle-even":  # the shape of the repository's own test
        t = np.linspace(0, 2 * np.pi, n, endpoint=False)
        return np.cos(t) * spec.get("r", 1.0), np.sin(t) * spec.get("r", 1.0)
    if kind == "ellipse-even":  # evenly spaced parameter on an ellipse = unevenly spaced points
        t = np.linspace(0, 2 * np.pi, n, endpoint=False)
        return np.cos(t) * spec.get("rx", 1.0), np.sin(t) * spec.get("ry", 1.0)
    if kind == "two-clusters":  # two far apart groups of three points
        x = np.array([0.0, 1.0, 0.0, 100.0, 101.0, 100.0])
        y = np.array([0.0, 0.0, 1.0, 0.0, 0.0, 1.0])
        return x, y
    if kind == "line-with-gap":  # irregular spacing along a line: groups of three close points separated by wide gaps
        x = np.array([0.0, 1.0, 2.0, 10.0, 11.0, 12.0, 20.0, 21.0, 22.0])
        return x, np.zeros_like(x)
    if kind == "rect-grid-boundary":  # boundary cells of a rectangular region on an anisotropic grid
        nx, ny = int(spec["nx"]), int(spec["ny"])
        dx, dy = float(spec["dx"]), float(spec["dy"])
        pts = [(i * dx, j * dy) for i in range(nx) for j in range(ny) if i in (0, nx - 1) or j in (0, ny - 1)]
        a = np.array(pts)
        return a[:, 0], a[:, 1]
    if kind == "circle-jitter":  # irregular spacing on a closed curve
        t = np.sort(rng.uniform(0, 2 * np.pi, n))
        return np.cos(t) * 3.0, np.sin(t) * 2.0
    if kind == "clusters-random":
        k = int(spec.get("k", 3))
        c = rng.uniform(-50, 50, size=(k, 2))
        idx = np.arange(n) % k
        p = c[idx] + rng.normal(size=(n, 2)) * 0.5
        return p[:, 0], p[:, 1]
    if kind == "ellipse-aniso-grid":  # boundary of an ellipse rasterised on an anisotropic grid
        dx, dy = float(spec["dx"]), float(spec["dy"])
        gx = np.arange(-5, 5 + dx, dx)
        gy = np.arange(-3, 3 + dy, dy)
        reg = (gx[:, None] / 4.0) ** 2 + (gy[None, :] / 2.0) ** 2 <= 1.0
        b = np.argwhere(A.boundary_mask(reg))
        return gx[b[:, 0]], gy[b[:, 1]]
    if kind == "uniform-cloud":
        p = rng.uniform(0, 10, size=(n, 2))
        return p[:, 0], p[:, 1]
    raise ValueError(kind)


SORTER_CLASS = {
    "circle-even": "regular-circle",
    "ellipse-even": "irregular",
    "two-clusters": "clustered",
    "clusters-random": "clustered",
    "line-with-gap": "irregular",
    "circle-jitter": "irregular",
    "uniform-cloud": "irregular",
    "rect-grid-boundary": "grid-boundary",
    "ellipse-aniso-grid": "grid-boundary",
}


def check_sorter(inputs, book):
    spec = inputs["points"]
    x, y = make_points(spec)
    klass = SORTER_CLASS[spec["kind"]]
    for flag in (False, True):
        case = f"C15/sorter/permutation/{klass}"
        try:
            with warnings.catch_warnings():
                warnings.simplefilter("ignore")
                xx, yy = sort_points_to_form_continuous_line(x.copy(), y.copy(), search_for_optimal_start=flag)
            xx, yy = np.asarray(xx, dtype=float), np.asarray(yy, dtype=float)
            got = sorted(zip(xx.tolist(), yy.tolist()))
            want = sorted(zip(x.tolist(), y.tolist()))
            ok = got == want
            detail = (f"[{spec['kind']}] search_for_optimal_start={flag}: {len(x)} points in, {len(xx)} points out, "
                      f"{len(set(want) - set(got))} input points missing, {len(got) - len(set(got)) - (len(want) - len(set(want)))} extra duplicates")
        except Exception:
            ok = False
            detail = f"[{spec['kind']}] search_for_optimal_start={flag}: raised " + A.last_tb_line()
        book.ev("sorter", ok, case, CLAUSES["permutation"], detail, inputs)
    if len(x) >= 4:
        book.nontrivial(("sorter", spec["kind"], spec.get("seed"), spec.get("n"), spec.get("dx"), spec.get("dy"), spec.get("nx"), spec.get("ny"), spec.get("r"), spec.get("rx"), spec.get("ry")))
    book.sample({"points": spec, "n": int(len(x))}, limit=9)


def _scenarios(tier, seed):
    rng = np.random.default_rng(seed + 17)
    scen = [dict(kind="hdc", **sc) for sc in A.hdc_gen_scenarios(tier, seed, "C15")]
    # seed independent sorter core
    core = [
        {"kind": "circle-even", "n": 10},
        {"kind": "circle-even", "n": 100, "r": 3.0},
        {"kind": "ellipse-even", "n": 100, "rx": 3.0, "ry": 1.0},
        {"kind": "two-clusters"},
        {"kind": "line-with-gap"},
        {"kind": "rect-grid-boundary", "nx": 40, "ny": 6, "dx": 0.05, "dy": 0.5},
        {"kind": "rect-grid-boundary", "nx": 12, "ny": 12, "dx": 1.0, "dy": 1.0},
        {"kind": "ellipse-aniso-grid", "dx": 0.05, "dy": 0.5},
        {"kind": "ellipse-aniso-grid", "dx": 0.2, "dy": 0.2},
        {"kind": "circle-jitter", "n": 60, "seed": 1},
        {"kind": "clusters-random", "n": 30, "k": 3, "seed": 2},
        {"kind": "uniform-cloud", "n": 80, "seed": 3},
    ]
    for p in core:
        scen.append({"kind": "sorter", "label": "core", "points": p})
    n_rand = 30 if tier == "quick" else 400
    kinds = ["circle-jitter", "clusters-random", "uniform-cloud", "ellipse-aniso-grid", "rect-grid-boundary", "circle-even", "ellipse-even"]
    for i in range(n_rand):
        k = kinds[i % len(kinds)]
        p = {"kind": k, "seed": int(rng.integers(1 << 31)), "n": int(rng.integers(5, 300))}
        if k == "clusters-random":
            p["k"] = int(rng.integers(2, 6))
        if k == "ellipse-aniso-grid":
            dx = float(np.round(rng.uniform(0.03, 0.3), 3))
            p.update({"dx": dx, "dy": float(np.round(dx * rng.uniform(1.0, 10.0), 3))})
        if k == "rect-grid-boundary":
            dx = float(np.round(rng.uniform(0.05, 1.0), 3))
            p.update({"nx": int(rng.integers(3, 60)), "ny": int(rng.integers(3, 60)), "dx": dx, "dy": float(np.round(dx * rng.uniform(1.0, 10.0), 3))})
        if k == "circle-even":
            p.update({"r": float(np.round(rng.uniform(0.5, 5), 2))})
        if k == "ellipse-even":
            p.update({"rx": float(np.round(rng.uniform(0.5, 5), 2)), "ry": float(np.round(rng.uniform(0.5, 5), 2))})
        scen.append({"kind": "sorter", "label": "random", "points": p})
    return scen


def check(inputs, book):
    if inputs.get("kind") == "sorter":
        check_sorter(inputs, book)
    else:
        check_hdc(inputs, book)


def run(tier, seed):
    t0 = time.time()
    book = A.Book()
    scen = _scenarios(tier, seed)
    for sc in scen:
        check(sc, book)
    # history: the coordinates of a contour do not depend on contours computed earlier from the same model object
    from . import C02 as _c02
    n_hist = 0
    for sc in scen:
        if n_hist >= (3 if tier == "quick" else 12):
            break
        if sc["kind"] == "hdc" and A.hdc_decode_limits(sc) is not None and A.hdc_decode_deltas(sc) is not None and len(sc["recipe"]["dims"]) == 2:
            _c02.check_history(sc, book, prop="C15", clause="the coordinates are the boundary cells of the enclosed region of THIS model, alpha and grid "
                                                              "(the same whether or not other contours were computed from the model object before)")
            n_hist += 1
    n_hdc = sum(1 for s in scen if s["kind"] == "hdc")
    return {
        "evaluations": book.evaluations,
        "distinct_nontrivial": len(book.keys),
        "failures": book.failures,
        "bounded": [
            {
                "what": "returned HDC coordinates vs. the boundary cells of the enclosed region (own 3^n-neighbour test), container type, sorter order",
                "bound": f"{n_hdc} grids: 12 fixed (isotropic, anisotropic with ratios up to 10, default limits/deltas, bimodal = two regions, 3-D, "
                         f"too small a grid) + seeded random 2-D/3-D models, alpha in [1e-6, 0.3]; tier {tier}",
                "evaluations": book.evaluations - book.per_group.get("sorter", 0),
                "rule": "distinct = (label, structure, families, alpha, grid shape); non-trivial = 1-alpha reachable, >= 10 cells per axis, >= 8 boundary cells",
            },
            {
                "what": "sort_points_to_form_continuous_line returns a permutation of its input, both values of search_for_optimal_start",
                "bound": f"{len(scen) - n_hdc} planar point sets: evenly spaced ellipses, jittered closed curves, clusters, uniform clouds, "
                         f"boundaries of rectangles/ellipses on isotropic and anisotropic grids (ratio <= 10), 5..300 points",
                "evaluations": book.per_group.get("sorter", 0),
                "rule": "distinct = point-set recipe; non-trivial = at least 4 points",
            },
        ],
        "samples": book.samples,
        "seconds": round(time.time() - t0, 2),
    }


def replay(doc):
    book = A.Book()
    if doc["case"].endswith("/history"):
        from . import C02 as _c02
        _c02.check_history(doc["inputs"], book, prop="C15")
    else:
        check(doc["inputs"], book)
    return not any(f["case"] == doc["case"] for f in book.failures)
