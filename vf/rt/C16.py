"""RTC driver C16 - transformed models are exact push-forwards; Monte-Carlo conditionals match them
(bounded stand-in, never counted as proved).

Clauses (properties.jsonl C16), checked on the real code against an independent closed-form reference
(scipy.stats.exponweib for the Hs / steepness distributions, Tz | Hs = h is 1 - F_S|h(factor * h / tz^2),
Hs | Tz by one-dimensional quadrature of the exact joint density):
  vt.inverse     inverse(transform(x)) = x for the six shipped transformations, |rel. error| <= 1e-9
                 (round-off with three decades of headroom), hs, tz, s, d over (1e-3, 1e2)
  triple.inverse / triple.jacobian   the predefined _transform/_inv_transform/_jacobian triples: both compositions are
                 the identity (1e-9) and _jacobian = |det d transform / dx| (complex-step derivative, 1e-10)
  pdf.push       TransformedModel.pdf(x) = base.pdf(transform(x)) * |det| (1e-12) = exact joint density (1e-8)
  pdf.norm       the density integrates to one: int pdf(h, tz) dtz = f_Hs(h) (1e-6) and the h-integral of that is 1
  cdf.ecdf       cdf(x) equals the empirical cdf of the model's own samples within the Hoeffding/DKW bound
  sample.inverse draw_sample(n) is inverse(base.draw_sample(n)) (spy on the base model) and its Rosenblatt transform
                 is uniform within DKW
  csample.dkw    conditional_sample follows the exact conditional cdf within DKW (no tail truncated), n as requested
  ccdf.dkw / cicdf.dkw   conditional_cdf / conditional_icdf agree with the exact conditional within DKW
  iform.dkw      every point of IFORMContour(t_model) has exact (marginal, conditional) probabilities within DKW of the
                 probabilities of its sphere point, i.e. agrees with the exactly transformed base contour within MC error
  repro          results are reproduced exactly when random_state is set
All statistical comparisons: eps = sqrt(ln(2/delta)/(2n)), delta = 1e-12 per comparison (+ 1/n for sample quantiles).
"""
import concurrent.futures as cf
import math
import os
import time
import warnings

import numpy as np
import scipy.integrate as si
import scipy.optimize as so
import scipy.stats as sts

import virocon
from virocon import GlobalHierarchicalModel, IFORMContour, TransformedModel
from virocon import variable_transform as vt

from ._common_D import DELTA, Tally, dkw_eps, jsonable, ks_distance, last_line

F = vt.factor

# the two predefined models fitted (by virocon itself) to the EC benchmark datasets A, B, C (1 year)
FIXED = {
    "W-A": {"getter": "get_Windmeier_EW_Hs_S", "hs": [0.24750328177223144, 0.6850753485420658, 6.354296875000012], "alpha": [0.05082532537358916, 0.4217692802524887], "beta": [0.9599712383536317, 0.5750234774134609]},
    "W-B": {"getter": "get_Windmeier_EW_Hs_S", "hs": [0.22024952103147566, 0.6874831789119222, 11.750683593750024], "alpha": [0.04255911317450531, 0.5636829284127098], "beta": [0.8687812223103109, 0.7609580175459807]},
    "W-C": {"getter": "get_Windmeier_EW_Hs_S", "hs": [0.3558266426790537, 0.7722215906528377, 5.372851562500009], "alpha": [0.0424514373112269, 0.9882603667617216], "beta": [1.3850625877279985, 0.8558017190459911]},
    "N-A": {"getter": "get_Nonzero_EW_Hs_S", "hs": [0.24750328177223144, 0.6850753485420658, 6.354296875000012], "alpha": [0.11243874947699489, 0.10757889600360433], "beta": [0.9599712383536317, 0.5750234774134609]},
    "N-B": {"getter": "get_Nonzero_EW_Hs_S", "hs": [0.22024952103147566, 0.6874831789119222, 11.750683593750024], "alpha": [0.05117215321434412, 0.2731323346505572], "beta": [0.8687812223103109, 0.7609580175459807]},
    "N-C": {"getter": "get_Nonzero_EW_Hs_S", "hs": [0.3558266426790537, 0.7722215906528377, 5.372851562500009], "alpha": [0.03969066798489745, 0.7002946894910628], "beta": [1.3850625877279985, 0.8558017190459911]},
}


def _random_mspec(rng):
    u = lambda a, b: float(rng.uniform(a, b))  # noqa: E731
    return {"getter": ["get_Windmeier_EW_Hs_S", "get_Nonzero_EW_Hs_S"][int(rng.integers(0, 2))], "hs": [u(0.2, 0.5), u(0.65, 0.9), u(4.0, 12.0)],
            "alpha": [u(0.04, 0.12), u(0.1, 1.0)], "beta": [u(0.85, 1.4), u(0.5, 0.9)]}


def _build(ms, precision_factor=1.0, random_state=None):
    dd, _, _, tr = getattr(virocon, ms["getter"])()
    d = dd[0]["distribution"]
    d.alpha, d.beta, d.delta = ms["hs"]
    dd[1]["parameters"]["alpha"].parameters = dict(zip("ab", ms["alpha"]))
    dd[1]["parameters"]["beta"].parameters = dict(zip("ab", ms["beta"]))
    base = GlobalHierarchicalModel(dd)
    if isinstance(random_state, dict):
        random_state = np.random.default_rng(random_state["generator"])
    t = TransformedModel(base, tr["transform"], tr["inverse"], tr["jacobian"], precision_factor=precision_factor, random_state=random_state)
    return base, t, tr


class _Exact:
    """closed-form reference of a Hs-steepness model seen in Hs-Tz space (independent of virocon's distributions)"""

    def __init__(self, ms):
        self.ms = ms
        self.shift = 0.006 if ms["getter"] == "get_Nonzero_EW_Hs_S" else 0.0
        a, b, d = ms["hs"]
        self.hs = sts.exponweib(a=d, c=b, scale=a)

    def s_dist(self, h):
        h = np.asarray(h, dtype=float)
        a, b = self.ms["alpha"]
        a2, b2 = self.ms["beta"]
        scale = self.shift + a * (1 - np.exp(-b * h))
        shape = a2 + b2 * h
        return sts.exponweib(a=2.35, c=shape, scale=scale)

    def F_tz_given_hs(self, tz, h):
        tz = np.asarray(tz, dtype=float)
        return self.s_dist(h).sf(F * h / tz**2)

    def q_tz_given_hs(self, p, h):
        s = self.s_dist(h).isf(p)
        return np.sqrt(F * h / s)

    def pdf(self, h, tz):
        h, tz = np.asarray(h, float), np.asarray(tz, float)
        return self.hs.pdf(h) * self.s_dist(h).pdf(F * h / tz**2) * 2 * F * h / tz**3

    def F_tz(self, tz):
        """marginal cdf of Tz: 4000-point midpoint rule in u = F_Hs(h); only used to PLACE conditioning values"""
        if not hasattr(self, "_gl"):
            n = 4000
            self._gl = (self.hs.ppf((np.arange(n) + 0.5) / n), np.full(n, 1.0 / n))
        h, w = self._gl
        return float(np.sum(w * self.F_tz_given_hs(tz, h)))

    def tz_at_level(self, q):
        return so.brentq(lambda t: self.F_tz(t) - q, 0.2, 60.0, xtol=1e-10)

    def hs_given_tz_cdf(self, tz):
        """exact cdf of Hs | Tz = tz as a callable (dense cumulative quadrature, relative error < 1e-7)"""
        g = lambda h: self.pdf(h, tz)  # noqa: E731
        grid = np.unique(np.r_[np.geomspace(1e-12, 1e-3, 400), np.geomspace(1e-3, 150.0, 60001)])
        y = g(grid)
        y = np.where(np.isfinite(y), y, 0.0)
        # narrow conditionals (short periods): refine around the mode so that the trapezoid rule stays accurate
        m0 = grid[int(np.argmax(y))]
        grid = np.unique(np.r_[grid, np.geomspace(max(m0 / 30.0, 1e-12), min(m0 * 30.0, 150.0), 200001)])
        y = g(grid)
        y = np.where(np.isfinite(y), y, 0.0)
        # Simpson-like accuracy via cumulative trapezoid on a very dense geometric grid
        c = np.r_[0.0, np.cumsum(0.5 * (y[1:] + y[:-1]) * np.diff(grid))]
        total = c[-1]
        # cross-check the normaliser with adaptive quadrature around the mode
        mode = grid[int(np.argmax(y))]
        v, _ = si.quad(g, 0, 150.0, points=sorted({mode * k for k in (0.25, 0.5, 0.8, 1.0, 1.25, 2.0, 4.0) if mode * k < 150.0}), limit=800, epsabs=0, epsrel=1e-10)
        # the two quadratures agree to 1e-7 on ordinary conditionals; on very narrow ones (short periods) they differ by a
        # few 1e-4 - their disagreement is carried as the reference's own error and added to every tolerance
        self.last_ref_err = abs(v - total) / total
        assert self.last_ref_err <= 1e-3, (v, total)
        return (lambda x: np.interp(np.asarray(x, float), grid, c / total)), (lambda p: np.interp(np.asarray(p, float), c / total, grid))


def _seed_global(seed):
    np.random.seed(int(seed) % (2**32))


def _rs(kind, seed):
    if kind == "none":
        return None
    if kind == "int":
        return int(seed)
    return np.random.default_rng(int(seed))


def _n_icdf(p, pf):
    p_small = p if p < 0.5 else 1 - p
    return int(min(max((1 / p_small) * 100 * pf, 100_000), 10_000_000))


# ------------------------------------------------------------------------------- tasks
def _t_vt(task, T):
    rng = np.random.default_rng(task["seed"])
    G = "variable transformations"
    region = task["region"]
    n = int(task["n"])
    if region == "sea-states":
        hs, tz = rng.uniform(0.1, 20, n), rng.uniform(1, 25, n)
        s, d = vt.hs_tz_to_s_d(hs, tz)  # the matching (s, d) region
    else:  # the full stated domain (1e-3, 1e2)^2: random log-uniform points and a fixed 40 x 40 logarithmic grid
        g = np.geomspace(1.0000001e-3, 0.9999999e2, 40)
        gx, gy = (a.ravel() for a in np.meshgrid(g, g))
        hs, tz = np.r_[10 ** rng.uniform(-3, 2, n), gx], np.r_[10 ** rng.uniform(-3, 2, n), gy]
        s, d = np.r_[10 ** rng.uniform(-3, 2, n), gx], np.r_[10 ** rng.uniform(-3, 2, n), gy]
    pairs = {
        "hs_tz-s_d-hs_tz": (lambda a, b: vt.s_d_to_hs_tz(*vt.hs_tz_to_s_d(a, b)), hs, tz),
        "s_d-hs_tz-s_d": (lambda a, b: vt.hs_tz_to_s_d(*vt.s_d_to_hs_tz(a, b)), s, d),
        "hs_tz-hs_s-hs_tz": (lambda a, b: vt.hs_s_to_hs_tz(*vt.hs_tz_to_hs_s(a, b)), hs, tz),
        "hs_s-hs_tz-hs_s": (lambda a, b: vt.hs_tz_to_hs_s(*vt.hs_s_to_hs_tz(a, b)), hs, s if region == "sea-states" else tz),
        "hs_tz-s_tz-hs_tz": (lambda a, b: vt.s_tz_to_hs_tz(*vt.hs_tz_to_s_tz(a, b)), hs, tz),
        "s_tz-hs_tz-s_tz": (lambda a, b: vt.hs_tz_to_s_tz(*vt.s_tz_to_hs_tz(a, b)), s if region == "sea-states" else hs, tz),
    }
    for name, (fn, a, b) in pairs.items():
        case = f"vt/{name}/{region}"
        inp = dict(task, pair=name)
        try:
            with np.errstate(all="ignore"):
                a2, b2 = fn(a, b)
                # scalar route on a few points must agree with the array route
                k = [0, len(a) // 2, len(a) - 1]
                sc = [fn(float(a[i]), float(b[i])) for i in k]
        except Exception:
            T.check(False, G, case, "vt.inverse: inverse(transform(x)) = x on the positive quadrant", f"raised {last_line()}", inp)
            continue
        err = np.maximum(np.abs(a2 - a) / a, np.abs(b2 - b) / b)
        err = np.where(np.isfinite(err), err, np.inf)
        i = int(np.argmax(err))
        T.ok(G, len(a) - 1)
        T.check(err[i] <= 1e-9, G, case, "vt.inverse: inverse(transform(x)) = x on the positive quadrant",
                f"{int(np.sum(err > 1e-9))} of {len(a)} points off by more than 1e-9; worst relative error {err[i]:.3g} at x = ({a[i]!r}, {b[i]!r}) -> ({a2[i]!r}, {b2[i]!r})",
                dict(inp, worst_point=[float(a[i]), float(b[i])]))
        T.check(all(np.allclose(np.array(v, float), [a2[j], b2[j]], rtol=1e-14, atol=0) for v, j in zip(sc, k)), G, case,
                "vt.inverse: scalar and array evaluation agree", "scalar route differs from array route", inp)
        T.key(("vt", name, region))


def _t_triple(task, T):
    rng = np.random.default_rng(task["seed"])
    G = "predefined transformation triples"
    n = int(task["n"])
    for getter in ("get_Windmeier_EW_Hs_S", "get_Nonzero_EW_Hs_S"):
        tr = getattr(virocon, getter)()[3]
        inp = dict(task, getter=getter)
        for region in ("sea-states", "full-domain"):
            case = f"triple/{getter}/{region}"
            if region == "sea-states":
                x = np.c_[rng.uniform(0.1, 20, n), rng.uniform(1, 25, n)]
                y = np.c_[rng.uniform(0.1, 20, n), rng.uniform(1e-3, 0.15, n)]
            else:
                x = 10 ** rng.uniform(-3, 2, (n, 2))
                y = 10 ** rng.uniform(-3, 2, (n, 2))
            try:
                x2 = tr["inverse"](tr["transform"](x))
                y2 = tr["transform"](tr["inverse"](y))
                ex, ey = np.max(np.abs(x2 - x) / x), np.max(np.abs(y2 - y) / y)
                T.ok(G, 2 * n - 2)
                T.check(ex <= 1e-9, G, case, "triple.inverse: inverse(transform(x)) = x", f"worst relative error {ex:.3g}", inp)
                T.check(ey <= 1e-9, G, case, "triple.inverse: transform(inverse(y)) = y", f"worst relative error {ey:.3g}", inp)
                # Jacobian by complex-step differentiation of the shipped _transform
                h = 1e-30
                c0 = tr["transform"](x.astype(complex) + np.array([1j * h, 0]))
                c1 = tr["transform"](x.astype(complex) + np.array([0, 1j * h]))
                J = np.empty((n, 2, 2))
                J[:, :, 0] = c0.imag / h
                J[:, :, 1] = c1.imag / h
                det = np.abs(J[:, 0, 0] * J[:, 1, 1] - J[:, 0, 1] * J[:, 1, 0])
                jac = np.asarray(tr["jacobian"](x), dtype=float)
                closed = 2 * F * x[:, 0] / x[:, 1] ** 3
                ej = np.max(np.abs(jac - det) / det)
                ec = np.max(np.abs(jac - closed) / closed)
                T.ok(G, n - 1)
                T.check(ej <= 1e-10 and ec <= 1e-12, G, case, "triple.jacobian: the supplied Jacobian equals |det d transform / dx|",
                        f"relative deviation from the complex-step determinant {ej:.3g}, from 2*factor*hs/tz^3 {ec:.3g}", inp)
            except Exception:
                T.check(False, G, case, "triple.inverse: the triple evaluates on the positive quadrant", f"raised {last_line()}", inp)
            T.key(("triple", getter, region))


def _t_pdf(task, T):
    rng = np.random.default_rng(task["seed"])
    G = "push-forward density"
    ms = task["model"]
    base, t, tr = _build(ms)
    ex = _Exact(ms)
    tag = task["tag"]
    # points: own samples (bulk) and a log grid (tails)
    smp = tr["inverse"](base.draw_sample(200, random_state=int(task["seed"])))
    grid = np.c_[10 ** rng.uniform(-1.5, 1.3, 200), 10 ** rng.uniform(0.0, 1.4, 200)]
    x = np.r_[smp, grid]
    case = f"pdf/{tag}/pushforward"
    try:
        with np.errstate(all="ignore"):
            got = np.asarray(t.pdf(x), float)
            ref = np.asarray(base.pdf(tr["transform"](x)), float) * 2 * F * x[:, 0] / x[:, 1] ** 3
            exact = ex.pdf(x[:, 0], x[:, 1])
        ok = ref > 1e-280
        e1 = np.max(np.abs(got[ok] - ref[ok]) / ref[ok])
        ok2 = exact > 1e-250
        e2 = np.max(np.abs(got[ok2] - exact[ok2]) / exact[ok2])
        T.ok(G, len(x) - 1)
        T.check(e1 <= 1e-12 and np.all(got[~ok] <= 1e-270), G, case, "pdf.push: pdf(x) = base.pdf(transform(x)) * |det|", f"worst relative deviation {e1:.3g}", task)
        T.check(e2 <= 1e-8, G, case, "pdf.push: pdf equals the exact push-forward density", f"worst relative deviation from the closed form {e2:.3g}", task)
        got_list = np.asarray(t.pdf(np.array(x[:3].tolist())), float)
        T.check(np.array_equal(got_list, got[:3]), G, case, "pdf.push: same values for a freshly built array", "differs", task)
    except Exception:
        T.check(False, G, case, "pdf.push: pdf evaluates on the positive quadrant", f"raised {last_line()}", task)
    # normalisation
    case = f"pdf/{tag}/normalised"
    nodes, weights = np.polynomial.legendre.leggauss(10)
    u = 0.5 * (nodes + 1)
    w = 0.5 * weights
    ratios = []
    try:
        for ui in u:
            h = float(ex.hs.ppf(ui))
            mode = float(ex.q_tz_given_hs(0.5, h))
            pts = sorted({float(ex.q_tz_given_hs(q, h)) for q in (1e-6, 0.01, 0.5, 0.99, 1 - 1e-6)} | {mode})
            # the mass outside [0.2 * q(1e-6), 5 * q(1 - 1e-6)] of the conditional is far below the tolerance
            v, _ = si.quad(lambda tz: float(t.pdf(np.array([[h, tz]]))[0]), pts[0] * 0.2, pts[-1] * 5, points=pts, limit=400, epsabs=0, epsrel=1e-9)
            f_h = float(base.distributions[0].pdf(np.array([h]))[0])
            ratios.append(v / f_h)
            T.check(abs(v / f_h - 1) <= 1e-6, G, case, "pdf.norm: the conditional slice integrates to the marginal density of Hs",
                    f"int pdf(h={h:.4g}, tz) dtz / f_Hs(h) = {v / f_h!r}", task)
        total = float(np.sum(w * np.array(ratios)))
        T.check(abs(total - 1) <= 1e-6, G, case, "pdf.norm: the density integrates to one", f"integral = {total!r}", task)
    except Exception:
        T.check(False, G, case, "pdf.norm: the density integrates to one", f"raised {last_line()}", task)
    T.key(("pdf", tag, repr(ms)))


def _t_cdf(task, T):
    G = "cdf vs empirical cdf"
    ms = task["model"]
    tag = task["tag"]
    _seed_global(task["seed"])
    base, t, tr = _build(ms)
    ex = _Exact(ms)
    case = f"cdf/{tag}/empirical"
    try:
        n = int(task["n"])
        smp = t.draw_sample(n)
        pts = []
        for q0, q1 in task["levels"]:
            h = float(ex.hs.ppf(q0))
            pts.append([h, float(ex.q_tz_given_hs(q1, h))])
        arg = pts if task.get("as_list") else np.array(pts)
        with warnings.catch_warnings():
            warnings.simplefilter("ignore")
            p = np.asarray(t.cdf(arg if len(pts) > 1 or not task.get("as_list") else pts[0]), float).reshape(-1)
        pe = np.asarray(t.empirical_cdf(arg, sample=smp), float).reshape(-1)
        eps = dkw_eps(n)
        for k in range(len(pts)):
            T.check(abs(p[k] - pe[k]) <= eps, G, case, "cdf.ecdf: cdf equals the empirical cdf of the model's own samples within Monte-Carlo error",
                    f"x={pts[k]}: cdf {p[k]!r}, empirical {pe[k]!r} (n={n}, eps={eps:.4g})", task)
        if task.get("default_sample"):
            # whole-number coordinates spelled as integers (list of ints, integer ndarray) = the same point spelled as floats
            pi = [int(round(pts[0][0])) or 1, int(round(pts[0][1])) or 1]
            with warnings.catch_warnings():
                warnings.simplefilter("ignore")
                c_f = float(np.asarray(t.cdf(np.array([[float(pi[0]), float(pi[1])]])), float).reshape(-1)[0])
                c_i = float(np.asarray(t.cdf(np.array([pi], dtype=np.int64)), float).reshape(-1)[0])
                c_l = float(np.asarray(t.cdf([pi]), float).reshape(-1)[0])
            T.check(c_i == c_f and c_l == c_f, G, case, "cdf.ecdf: cdf equals the empirical cdf of the model's own samples (point given with integer coordinates)",
                    f"x={pi}: cdf {c_f!r} for float coordinates, {c_i!r} for an integer ndarray, {c_l!r} for a list of ints", task)
            pe2 = np.asarray(t.empirical_cdf(arg), float).reshape(-1)
            eps2 = dkw_eps(1_000_000)
            T.check(t._sample is not None and len(t._sample) == 1_000_000, G, case, "cdf.ecdf: the default empirical cdf uses the model's own sample of 1e6", "no cached sample", task)
            for k in range(len(pts)):
                T.check(abs(p[k] - pe2[k]) <= eps2, G, case, "cdf.ecdf: cdf equals the empirical cdf of the model's own samples within Monte-Carlo error",
                        f"x={pts[k]}: cdf {p[k]!r}, empirical (own 1e6 sample) {pe2[k]!r} (eps={eps2:.4g})", task)
    except Exception:
        T.check(False, G, case, "cdf.ecdf: cdf and empirical cdf evaluate", f"raised {last_line()}", task)
    T.key(("cdf", tag, repr(task["levels"])))


def _t_sample(task, T):
    G = "draw_sample"
    ms = task["model"]
    tag = task["tag"]
    _seed_global(task["seed"])
    base, t, tr = _build(ms, random_state=(int(task["seed"]) % 1000 + 1) if task.get("seeded") else None)
    ex = _Exact(ms)
    case = f"sample/{tag}"
    seen = []
    orig = base.draw_sample

    def spy(n, *a, **k):
        out = orig(n, *a, **k)
        seen.append(np.array(out, copy=True))
        return out

    base.draw_sample = spy  # instance attribute of our own object
    try:
        n = int(task["n"])
        x = np.asarray(t.draw_sample(n), float)
        T.check(len(seen) == 1 and x.shape == (n, 2) and np.array_equal(x, np.asarray(tr["inverse"](seen[0]), float)), G, case,
                "sample.inverse: the samples are the inverse-transformed samples of the base model", f"{len(seen)} base draws, shape {x.shape}", task)
        eps = dkw_eps(n)
        d0 = ks_distance(x[:, 0], ex.hs.cdf)
        u2 = ex.s_dist(x[:, 0]).cdf(F * x[:, 0] / x[:, 1] ** 2)
        d1 = ks_distance(u2, lambda v: np.clip(v, 0, 1))
        T.check(d0 <= eps, G, case, "sample.dkw: Hs of the samples follows its marginal", f"KS distance {d0:.4g} > eps {eps:.4g} (n={n})", task)
        T.check(d1 <= eps, G, case, "sample.dkw: the Rosenblatt transform of Tz | Hs is uniform", f"KS distance {d1:.4g} > eps {eps:.4g} (n={n})", task)
    except Exception:
        T.check(False, G, case, "sample.inverse: draw_sample works", f"raised {last_line()}", task)
    T.key(("sample", tag, repr(ms)))


def _given_value(ex, dim, level):
    if dim == 1:
        return float(ex.hs.ppf(level)) if level < 0.5 else float(ex.hs.isf(1 - level))
    return float(ex.tz_at_level(level))


def _cond_cdf(ex, dim, given):
    if dim == 1:
        return (lambda x: ex.F_tz_given_hs(x, given)), (lambda p: ex.q_tz_given_hs(p, given))
    return ex.hs_given_tz_cdf(given)


def _level_of(task):
    lv = task["level"]
    return 1.0 - float(lv["one_minus"]) if isinstance(lv, dict) else float(lv)


def _t_csample(task, T):
    G = "conditional_sample"
    ms, tag, dim = task["model"], task["tag"], int(task["dim"])
    _seed_global(task["seed"])
    base, t, tr = _build(ms)
    ex = _Exact(ms)
    case = task["case"]
    given = _given_value(ex, dim, _level_of(task))
    cdf, _ = _cond_cdf(ex, dim, given)
    n = int(task["n"])
    inp = dict(task, given=given)
    try:
        with warnings.catch_warnings():
            warnings.simplefilter("ignore")
            s = np.asarray(t.conditional_sample(n, dim, given if task.get("given_as", "float") == "float" else np.array([given]), random_state=_rs(task["rs"], task["seed"])), float)
    except Exception:
        T.check(False, G, case, "csample.dkw: conditional samples follow the conditional density", f"given={given!r}: raised {last_line()}", inp)
        T.key(("csample", tag, dim, task["level_name"]))
        return
    T.check(len(s) == n, G, case, "csample.size: n samples are returned", f"{len(s)} of {n}", inp)
    if len(s):
        eps = dkw_eps(len(s)) + (getattr(ex, "last_ref_err", 0.0) if dim == 0 else 0.0)
        dist = ks_distance(s, cdf)
        Fmax, Fmin = float(cdf(np.max(s))), float(cdf(np.min(s)))
        T.check(dist <= eps, G, case, "csample.dkw: conditional samples follow the conditional density without truncating its tails",
                f"given={given:.6g} (dim {dim}): KS distance to the exact conditional cdf {dist:.4g} > eps {eps:.4g} (n={len(s)}); "
                f"sample range [{np.min(s):.5g}, {np.max(s):.5g}] covers exact probabilities [{Fmin:.3g}, {Fmax:.6g}]", inp)
    T.key(("csample", tag, dim, task["level_name"], repr(ms)))


def _t_ccdf(task, T):
    G = "conditional_cdf / conditional_icdf"
    ms, tag, dim = task["model"], task["tag"], int(task["dim"])
    _seed_global(task["seed"])
    base, t, tr = _build(ms)
    ex = _Exact(ms)
    case = task["case"]
    given = _given_value(ex, dim, _level_of(task))
    cdf, icdf = _cond_cdf(ex, dim, given)
    probs = [float(p) for p in task["probs"]]
    inp = dict(task, given=given)
    kind = task["kind"]
    seen = []
    orig = t.conditional_sample

    def spy(n, *a, **k):
        out = orig(n, *a, **k)
        seen.append((int(n), len(out)))
        return out

    t.conditional_sample = spy
    try:
        with warnings.catch_warnings():
            warnings.simplefilter("ignore")
            if kind == "cdf":
                xs = np.asarray(icdf(np.array(probs)), float)
                arg_x = xs if task.get("as", "ndarray") == "ndarray" else xs.tolist()
                giv = np.full(len(xs), given) if task.get("as", "ndarray") == "ndarray" else [given] * len(xs)
                got = np.asarray(t.conditional_cdf(arg_x, dim, giv, random_state=_rs(task["rs"], task["seed"])), float)
                eps = dkw_eps(100_000)
                for k in range(len(xs)):
                    T.check(abs(got[k] - probs[k]) <= eps, G, case, "ccdf.dkw: conditional cdf follows the conditional density",
                            f"given={given:.6g}, x={xs[k]:.6g}: conditional_cdf {got[k]!r}, exact {probs[k]!r} (eps={eps:.4g})", inp)
            else:
                pf = float(task["pf"])
                arg_p = np.array(probs) if task.get("as", "ndarray") == "ndarray" else list(probs)
                giv = np.full(len(probs), given) if task.get("as", "ndarray") == "ndarray" else [given] * len(probs)
                got = np.asarray(t.conditional_icdf(arg_p, dim, giv, precision_factor=pf, random_state=_rs(task["rs"], task["seed"])), float)
                for k in range(len(probs)):
                    n_req = _n_icdf(probs[k], pf)
                    n_used = seen[k][1] if k < len(seen) else n_req
                    T.check(k < len(seen) and seen[k][0] == n_req, G, case, "cicdf.size: sample size follows precision_factor", f"requested {seen[k][0] if k < len(seen) else None}, expected {n_req}", inp)
                    eps = dkw_eps(max(n_used, 1)) + 1.0 / max(n_used, 1)
                    Fx = float(cdf(got[k])) if got[k] > 0 else 0.0
                    T.check(abs(Fx - probs[k]) <= eps, G, case, "cicdf.dkw: conditional quantiles follow the conditional density",
                            f"given={given:.6g}, p={probs[k]!r}: conditional_icdf {got[k]!r} has exact probability {Fx!r} (n={n_used}, eps={eps:.4g})", inp)
    except Exception:
        T.check(False, G, case, f"c{kind}.dkw: the call succeeds", f"given={given!r}: raised {last_line()}", inp)
    T.key(("c" + kind, tag, dim, task["level_name"], repr(probs), repr(ms)))


def _t_ccdf_mixed(task, T):
    G = "conditional_cdf / conditional_icdf"
    ms, tag, dim = task["model"], task["tag"], int(task["dim"])
    _seed_global(task["seed"])
    base, t, tr = _build(ms)
    ex = _Exact(ms)
    case = task["case"]
    givens = [_given_value(ex, dim, float(lv)) for lv in task["levels"]]
    xs = []
    for g in givens:
        _, icdf = _cond_cdf(ex, dim, g)
        xs.append(float(np.asarray(icdf(np.array([0.5])), float)[0]))
    inp = dict(task, givens=givens, xs=xs)
    try:
        with warnings.catch_warnings():
            warnings.simplefilter("ignore")
            got = np.asarray(t.conditional_cdf(np.array(xs), dim, np.array(givens), random_state=_rs(task["rs"], task["seed"])), float)
        eps = dkw_eps(100_000)
        for k in range(len(xs)):
            T.check(abs(got[k] - 0.5) <= eps, G, case, "ccdf.dkw: every row's conditional cdf follows the conditional density of ITS OWN conditioning value",
                    f"row {k}: given={givens[k]:.6g}, x={xs[k]:.6g} (the exact conditional median): conditional_cdf {got[k]!r} (eps={eps:.4g})", inp)
    except Exception:
        T.check(False, G, case, "ccdf.dkw: the call succeeds", f"raised {last_line()}", inp)
    T.key(("ccdf_mixed", tag, dim, repr(task["levels"]), repr(ms)))


def _iform_probs(ex, coords):
    F0 = ex.hs.cdf(coords[:, 0])
    with np.errstate(all="ignore"):
        F1 = np.where(coords[:, 1] > 0, ex.F_tz_given_hs(np.where(coords[:, 1] > 0, coords[:, 1], 1.0), coords[:, 0]), 0.0)
    return F0, F1


def _t_iform(task, T):
    G = "IFORM contour of the transformed model"
    ms, tag = task["model"], task["tag"]
    alpha, pf, npts = float(task["alpha"]), float(task["pf"]), int(task["n_points"])
    _seed_global(task["seed"])
    base, t, tr = _build(ms, precision_factor=pf, random_state=_rs(task["rs"], task["seed"]) if task["rs"] != "generator" else {"generator": task["seed"]})
    ex = _Exact(ms)
    case = task["case"]
    try:
        with warnings.catch_warnings():
            warnings.simplefilter("ignore")
            c = IFORMContour(t, alpha, n_points=npts)
    except Exception:
        T.check(False, G, case, "iform.dkw: the contour is computed", f"raised {last_line()}", task)
        T.key(("iform", tag, alpha, pf, npts))
        return
    co = np.asarray(c.coordinates, float)
    p = sts.norm.cdf(np.asarray(c.sphere_points, float))
    n_marg = max(int((1 / min(p[:, 0].min(), 1 - p[:, 0].max())) * 100 * pf), 100000)
    F0, F1 = _iform_probs(ex, co)
    # exactly transformed contour of the base model: same probabilities, closed-form quantiles
    exact = np.c_[ex.hs.ppf(p[:, 0]), [float(ex.q_tz_given_hs(p[k, 1], float(ex.hs.ppf(p[k, 0])))) for k in range(npts)]]
    bc = np.asarray(IFORMContour(base, alpha, n_points=npts).coordinates, float)
    bt = np.c_[bc[:, 0], np.sqrt(F * bc[:, 0] / bc[:, 1])]
    match = bt[(-np.arange(npts)) % npts]  # u2 -> -u2 because Tz decreases with steepness
    T.check(np.allclose(match, exact, rtol=1e-6, atol=0), G, case, "iform.reference: the closed-form contour is the transformed IFORM contour of the base model",
            f"max relative difference {np.max(np.abs(match - exact) / exact):.3g}", task)
    eps0 = dkw_eps(n_marg) + 1.0 / n_marg
    for k in range(npts):
        T.check(abs(F0[k] - p[k, 0]) <= eps0, G, case, "iform.dkw: Hs of every contour point agrees with the exactly transformed base contour within Monte-Carlo error",
                f"point {k}: hs={co[k, 0]:.5g} has exact probability {F0[k]:.6g}, sphere probability {p[k, 0]:.6g} (n={n_marg}, eps={eps0:.4g}); exact contour hs={exact[k, 0]:.5g}", task)
        n1 = _n_icdf(float(p[k, 1]), 1.0)
        eps1 = dkw_eps(n1) + 1.0 / n1
        T.check(abs(F1[k] - p[k, 1]) <= eps1, G, case, "iform.dkw: Tz of every contour point agrees with the exactly transformed base contour within Monte-Carlo error",
                f"point {k}: (hs, tz)=({co[k, 0]:.5g}, {co[k, 1]:.5g}) has exact conditional probability {F1[k]:.6g}, sphere probability {p[k, 1]:.6g} "
                f"(n={n1}, eps={eps1:.4g}); exact contour tz={float(ex.q_tz_given_hs(p[k, 1], co[k, 0])):.5g} at this hs", task)
    T.key(("iform", tag, alpha, pf, npts, task["rs"], repr(ms)))


def _t_repro(task, T):
    G = "reproducibility with random_state"
    ms, tag = task["model"], task["tag"]
    case = task["case"]
    _seed_global(task["seed"])
    kind = task["kind"]
    try:
        with warnings.catch_warnings():
            warnings.simplefilter("ignore")
            if kind == "iform":
                outs = []
                for _ in range(2):
                    rs = int(task["rs_seed"]) if task["rs"] == "int" else {"generator": int(task["rs_seed"])}
                    base, t, tr = _build(ms, precision_factor=float(task["pf"]), random_state=rs)
                    outs.append(np.asarray(IFORMContour(t, float(task["alpha"]), n_points=int(task["n_points"])).coordinates, float))
                d = np.max(np.abs(outs[0] - outs[1]), axis=0)
                T.check(np.array_equal(outs[0], outs[1]), G, case, "repro: the IFORM contour is reproduced exactly when the model's random_state is set",
                        f"two runs with random_state={task['rs']}({task['rs_seed']}) differ: max |diff| per column {d.tolist()}", task)
            else:
                base, t, tr = _build(ms)
                ex = _Exact(ms)
                given = _given_value(ex, int(task["dim"]), 0.9)
                outs = []
                for _ in range(2):
                    rs = int(task["rs_seed"]) if task["rs"] == "int" else np.random.default_rng(int(task["rs_seed"]))
                    if kind == "csample":
                        outs.append(np.asarray(t.conditional_sample(20000, int(task["dim"]), given, random_state=rs), float))
                    elif kind == "cicdf":
                        outs.append(np.asarray(t.conditional_icdf(np.array([0.3, 0.9]), int(task["dim"]), np.array([given, given]), precision_factor=0.1, random_state=rs), float))
                    else:
                        outs.append(np.asarray(t.conditional_cdf(np.array([given * 0 + 5.0]), int(task["dim"]), np.array([given]), random_state=rs), float))
                T.check(outs[0].shape == outs[1].shape and np.array_equal(outs[0], outs[1]), G, case, f"repro: {kind} is reproduced exactly when random_state is set", "two runs differ", task)
    except Exception:
        T.check(False, G, case, "repro: the call succeeds", f"raised {last_line()}", task)
    T.key(("repro", kind, tag, task["rs"]))


_TASKS = {"vt": _t_vt, "triple": _t_triple, "pdf": _t_pdf, "cdf": _t_cdf, "sample": _t_sample, "csample": _t_csample, "ccdf": _t_ccdf, "ccdf_mixed": _t_ccdf_mixed, "iform": _t_iform, "repro": _t_repro}


def _run_task(task):
    T = Tally()
    t0 = time.time()
    try:
        with np.errstate(all="ignore"):
            _TASKS[task["task"]](task, T)
    except Exception:
        T.check(False, "driver", task.get("case", task["task"]), "driver: task completes", f"driver error {last_line()}", task)
    return T, time.time() - t0


# ------------------------------------------------------------------------------- scenario generation
LEVELS = [("0.01", 0.01), ("0.5", 0.5), ("0.9", 0.9), ("0.99", 0.99), ("0.999", 0.999), ("1-1e-4", {"one_minus": 1e-4}), ("1-1e-5", {"one_minus": 1e-5}),
          ("1-1e-6", {"one_minus": 1e-6}), ("1-1e-7", {"one_minus": 1e-7})]


def _tasks(rng, tier):
    tasks = []
    S = lambda: int(rng.integers(0, 2**31))  # noqa: E731
    quick = tier == "quick"
    fixed = ["W-C", "N-A"] if quick else list(FIXED)
    n_rand = 3 if quick else 10
    rand = [("random", _random_mspec(rng)) for _ in range(n_rand)]
    pool_rng = np.random.default_rng(16)
    pool = [(f"R{i + 1}", _random_mspec(pool_rng)) for i in range(8)][:(3 if quick else 8)]
    tasks.append({"task": "vt", "region": "sea-states", "n": 2000 if quick else 200000, "seed": S(), "cost": 0.1})
    tasks.append({"task": "vt", "region": "full-domain", "n": 2000 if quick else 200000, "seed": S(), "cost": 0.1})
    tasks.append({"task": "triple", "n": 1000 if quick else 100000, "seed": S(), "cost": 0.1})
    models = [(k, FIXED[k]) for k in fixed] + rand
    rs_kinds = ["int", "generator", "none"]
    for i, (tag, ms) in enumerate(models):
        tasks.append({"task": "pdf", "tag": tag, "model": ms, "seed": S(), "cost": 1.0})
        tasks.append({"task": "sample", "tag": tag, "model": ms, "n": 200000 if quick else 1000000, "seed": S(), "cost": 0.5})
    # more than 1e6 points from a SEEDED model: still one base draw, inverse-transformed (no block drawn twice)
    tasks.append({"task": "sample", "tag": fixed[0], "model": FIXED[fixed[0]], "n": 1_200_000, "seed": S(), "seeded": True, "cost": 3.0})
    for i, (tag, ms) in enumerate(models if not quick else models[:3]):
        lv = [[0.5, 0.5], [0.9, 0.3]] if quick else [[0.5, 0.5], [0.9, 0.3], [0.3, 0.9], [0.99, 0.5]]
        tasks.append({"task": "cdf", "tag": tag, "model": ms, "n": 200000, "levels": lv, "as_list": bool(i % 2), "default_sample": i == 0, "seed": S(), "cost": 4.0 if quick else 10.0})
    # conditional samples: fixed models over all levels, both dims.
    # n = 1e5 (the size conditional_cdf itself uses), 1e4 where the sampler is expected to run into max_iter.
    # Four scenarios lose about 1 % of the conditional mass, i.e. the DKW half width at n = 1e5 itself (a coin flip
    # over seeds); they are decided with n = 1e6 instead.
    n_override = {("W-A", 0, "1-1e-4"): 1_000_000, ("N-C", 1, "1-1e-4"): 1_000_000, ("R6", 1, "0.999"): 1_000_000, ("R6", 0, "0.5"): 1_000_000}
    k = 0
    for tag in fixed:
        ms = FIXED[tag]
        for name, lv in LEVELS:
            extreme = name in ("1-1e-6", "1-1e-7")
            k += 1
            tasks.append({"task": "csample", "case": f"csample/{tag}/dim=1/q={name}", "tag": tag, "model": ms, "dim": 1, "level": lv, "level_name": name,
                          "n": n_override.get((tag, 1, name), 10000 if extreme else 100000), "rs": rs_kinds[k % 3], "given_as": ["float", "array"][k % 2], "seed": S(), "cost": 3.0 if extreme else 0.5})
        for name, lv in [LEVELS[0], LEVELS[1], LEVELS[3], LEVELS[5], LEVELS[7]]:
            extreme = name in ("1-1e-6", "1-1e-7")
            k += 1
            tasks.append({"task": "csample", "case": f"csample/{tag}/dim=0/q={name}", "tag": tag, "model": ms, "dim": 0, "level": lv, "level_name": name,
                          "n": n_override.get((tag, 0, name), 10000 if extreme else 100000), "rs": rs_kinds[k % 3], "given_as": "float", "seed": S(), "cost": 3.0 if extreme else 1.0})
    # narrow conditionals: Hs | Tz for very short periods lives on a few centimetres .. decimetres (the envelope of the
    # rejection sampler has to be searched on the support that was found, not on a fixed coarse grid)
    for tag in fixed:
        for name, lv in (("3e-4", 3e-4), ("1e-4", 1e-4)):
            k += 1
            tasks.append({"task": "csample", "case": f"csample/{tag}/dim=0/q={name}", "tag": tag, "model": FIXED[tag], "dim": 0, "level": lv, "level_name": name,
                          "n": 100000, "rs": rs_kinds[k % 3], "given_as": "float", "seed": S(), "cost": 1.0})
    # conditional cdf with DIFFERENT conditioning values in one call, the first one coming back (every row has to be
    # judged against the conditional of its own row)
    for tag in fixed:
        tasks.append({"task": "ccdf_mixed", "case": f"ccdf/{tag}/dim=1/mixed-givens", "tag": tag, "model": FIXED[tag], "dim": 1, "levels": [0.5, 0.99, 0.5, 0.9],
                      "rs": "int", "seed": S(), "cost": 2.0})
    # random models of the same structure: a FIXED pool R1..R8 (drawn once from default_rng(16)), so that a case id
    # denotes the same model for every seed - whether the support search of the rejection sampler truncates a given
    # conditional depends discontinuously on the model parameters (0.7-grid of x_max), a per-seed model would turn
    # the verdict into a lottery. Per-seed random models are used for the deterministic clauses above.
    for tag, ms in pool:
        lv1 = [LEVELS[1], LEVELS[3], LEVELS[4], LEVELS[8]] if quick else [LEVELS[1], LEVELS[2], LEVELS[3], LEVELS[4], LEVELS[5], LEVELS[8]]
        for name, lv in lv1:
            k += 1
            far = name in ("1-1e-4", "1-1e-7")
            tasks.append({"task": "csample", "case": f"csample/{tag}/dim=1/q={name}", "tag": tag, "model": ms, "dim": 1, "level": lv, "level_name": name,
                          "n": n_override.get((tag, 1, name), 10000 if far else 100000), "rs": rs_kinds[k % 3], "given_as": "float", "seed": S(), "cost": 3.0 if far else 0.5})
        for name, lv in ([LEVELS[1]] if quick else [LEVELS[1], LEVELS[3]]):
            k += 1
            tasks.append({"task": "csample", "case": f"csample/{tag}/dim=0/q={name}", "tag": tag, "model": ms, "dim": 0, "level": lv, "level_name": name,
                          "n": n_override.get((tag, 0, name), 100000), "rs": rs_kinds[k % 3], "given_as": "float", "seed": S(), "cost": 1.0})
    # conditional cdf / icdf
    for i, tag in enumerate(fixed):
        ms = FIXED[tag]
        for name, lv in ([LEVELS[1], LEVELS[4]] if quick else [LEVELS[0], LEVELS[1], LEVELS[3], LEVELS[4]]):
            k += 1
            tasks.append({"task": "ccdf", "kind": "cdf", "case": f"ccdf/{tag}/dim=1/q={name}", "tag": tag, "model": ms, "dim": 1, "level": lv, "level_name": name,
                          "probs": [0.05, 0.6] if quick else [0.01, 0.3, 0.6, 0.95], "rs": rs_kinds[k % 3], "as": ["ndarray", "list"][k % 2], "seed": S(), "cost": 1.0})
            tasks.append({"task": "ccdf", "kind": "icdf", "case": f"cicdf/{tag}/dim=1/q={name}", "tag": tag, "model": ms, "dim": 1, "level": lv, "level_name": name,
                          "probs": [0.5, 0.999] if quick else [0.02, 0.5, 0.97, 0.9995], "pf": [0.1, 0.5, 1.0][k % 3], "rs": rs_kinds[(k + 1) % 3], "as": ["ndarray", "list"][(k + 1) % 2], "seed": S(), "cost": 1.5})
        tasks.append({"task": "ccdf", "kind": "cdf", "case": f"ccdf/{tag}/dim=0/q=0.5", "tag": tag, "model": ms, "dim": 0, "level": 0.5, "level_name": "0.5",
                      "probs": [0.3, 0.9], "rs": "int", "as": "ndarray", "seed": S(), "cost": 1.5})
        tasks.append({"task": "ccdf", "kind": "icdf", "case": f"cicdf/{tag}/dim=0/q=0.5", "tag": tag, "model": ms, "dim": 0, "level": 0.5, "level_name": "0.5",
                      "probs": [0.5], "pf": 0.3, "rs": "generator", "as": "ndarray", "seed": S(), "cost": 1.5})
        # one extreme conditioning value for the cdf / quantile routes
        tasks.append({"task": "ccdf", "kind": "icdf", "case": f"cicdf/{tag}/dim=1/q=1-1e-5", "tag": tag, "model": ms, "dim": 1, "level": {"one_minus": 1e-5}, "level_name": "1-1e-5",
                      "probs": [0.5], "pf": 0.1, "rs": "int", "as": "ndarray", "seed": S(), "cost": 1.5})
        tasks.append({"task": "ccdf", "kind": "cdf", "case": f"ccdf/{tag}/dim=1/q=1-1e-5", "tag": tag, "model": ms, "dim": 1, "level": {"one_minus": 1e-5}, "level_name": "1-1e-5",
                      "probs": [0.5], "rs": "int", "as": "ndarray", "seed": S(), "cost": 1.5})
    for tag, ms in pool[:(1 if quick else len(pool))]:
        tasks.append({"task": "ccdf", "kind": "icdf", "case": f"cicdf/{tag}/dim=1/q=0.9", "tag": tag, "model": ms, "dim": 1, "level": 0.9, "level_name": "0.9",
                      "probs": [0.1, 0.9], "pf": float(rng.uniform(0.1, 1.0)), "rs": "int", "as": "ndarray", "seed": S(), "cost": 1.0})
    # IFORM contours
    for i, tag in enumerate(fixed):
        ms = FIXED[tag]
        for alpha, npts in ([(0.02, 8), (1e-3, 6)] if quick else [(0.05, 16), (0.02, 12), (1e-3, 12)]):
            pf = [0.2, 1.0, 0.1][(i + npts) % 3]
            tasks.append({"task": "iform", "case": f"iform/{tag}/alpha={alpha:g}", "tag": tag, "model": ms, "alpha": alpha, "pf": pf, "n_points": npts,
                          "rs": rs_kinds[(i + npts) % 3], "seed": S(), "cost": 0.5 * npts})
        # N-B at alpha = 1e-5 loses ~4 % of the conditional mass at the Monte-Carlo estimate of the extreme Hs, which moves the
        # median by about the DKW half width (verdict would depend on the seed): only the clear-cut alpha = 2e-6 is used there
        for alpha in ((1e-5,) if quick else ((2e-6,) if tag == "N-B" else (1e-5, 2e-6))):
            tasks.append({"task": "iform", "case": f"iform/{tag}/alpha={alpha:g}", "tag": tag, "model": ms, "alpha": alpha, "pf": 0.1, "n_points": 2, "rs": "int", "seed": S(), "cost": 6.0})
    for tag, ms in pool[1:(2 if quick else 4)]:
        tasks.append({"task": "iform", "case": f"iform/{tag}/alpha=0.03", "tag": tag, "model": ms, "alpha": 0.03, "pf": float(rng.uniform(0.1, 1.0)), "n_points": 6 if quick else 12,
                      "rs": "int", "seed": S(), "cost": 3.0})
    # reproducibility
    for i, tag in enumerate(fixed[:2]):
        ms = FIXED[tag]
        tasks.append({"task": "repro", "kind": "iform", "case": f"repro/iform/{tag}/rs={'int' if i == 0 else 'generator'}", "tag": tag, "model": ms, "alpha": 0.05, "pf": 0.2, "n_points": 4,
                      "rs": "int" if i == 0 else "generator", "rs_seed": 42, "seed": S(), "cost": 4.0})
        for kind in ("csample", "cicdf", "ccdf"):
            tasks.append({"task": "repro", "kind": kind, "case": f"repro/{kind}/{tag}/rs={'int' if i == 0 else 'generator'}", "tag": tag, "model": ms, "dim": 1,
                          "rs": "int" if i == 0 else "generator", "rs_seed": 7, "seed": S(), "cost": 1.0})
    return tasks


def run(tier, seed):
    t0 = time.time()
    rng = np.random.default_rng(seed)
    tasks = _tasks(rng, tier)
    order = sorted(range(len(tasks)), key=lambda i: -tasks[i].get("cost", 1.0))
    results = {}
    workers = int(os.environ.get("VF_RTC_WORKERS", "4"))
    timings = {}
    try:
        if workers <= 1:
            raise RuntimeError("serial")
        with cf.ProcessPoolExecutor(max_workers=workers) as pool:
            futs = {pool.submit(_run_task, tasks[i]): i for i in order}
            for f in cf.as_completed(futs):
                results[futs[f]], timings[futs[f]] = f.result()
    except Exception:
        for i in order:
            if i not in results:
                results[i], timings[i] = _run_task(tasks[i])
    T = Tally()
    for i in range(len(tasks)):
        T.merge(results[i])
    g = T.groups
    samples = []
    for want in ("vt", "pdf", "csample", "ccdf", "iform", "repro"):
        for tk in tasks:
            if tk["task"] == want:
                samples.append({"case": tk.get("case", tk["task"]), "inputs": jsonable(tk)})
                break
    slow = sorted(timings.items(), key=lambda kv: -kv[1])[:5]
    return {
        "evaluations": T.evaluations,
        "distinct_nontrivial": len(T.keys),
        "failures": jsonable(T.failures),
        "bounded": [
            {"what": "six shipped variable transformations and the two predefined (_transform, _inv_transform, _jacobian) triples", "bound": "random points and a 40x40 logarithmic grid over (1e-3, 1e2)^2, sea-state region hs in (0.1, 20), tz in (1, 25); scalar and array inputs",
             "evaluations": g.get("variable transformations", 0) + g.get("predefined transformation triples", 0), "rule": "distinct = (composition, region); every point counts as one evaluation"},
            {"what": "TransformedModel.pdf / cdf / empirical_cdf / draw_sample of the Windmeier and non-zero EW models (fitted to EC benchmark datasets A-C) and random models of the same structure",
             "bound": "400 points per model for the density identity, 10 Gauss-Legendre slices for the normalisation, 2..4 cdf points per model, samples of 2e5..1e6",
             "evaluations": g.get("push-forward density", 0) + g.get("cdf vs empirical cdf", 0) + g.get("draw_sample", 0), "rule": "distinct = (clause group, model parameters)"},
            {"what": "conditional_sample / conditional_cdf / conditional_icdf against the exact conditional (Tz | Hs closed form, Hs | Tz by quadrature)",
             "bound": "predefined models fitted to datasets A-C and a fixed pool R1..R8 of random models of the same structure; conditioning values at marginal quantile levels 0.01 .. 1-1e-7 (Hs) and 0.01 .. 1-1e-6 (Tz); "
                      "n = 1e4..1e6 per sample; precision_factor 0.1..1; random_state None / int / Generator; given as float / 1-element array; x, p as ndarray / list",
             "evaluations": g.get("conditional_sample", 0) + g.get("conditional_cdf / conditional_icdf", 0), "rule": "distinct = (function, model, dimension, conditioning level, probabilities); DKW eps at delta = 1e-12 per comparison"},
            {"what": "IFORMContour(TransformedModel) against the exactly transformed IFORM contour of the base model; reproducibility with random_state",
             "bound": "alpha in {0.05, 0.03, 0.02, 1e-3} with 6..16 points, alpha in {1e-5, 2e-6} with the two points of extreme / minimal Hs; precision_factor 0.1..1",
             "evaluations": g.get("IFORM contour of the transformed model", 0) + g.get("reproducibility with random_state", 0), "rule": "distinct = (model, alpha, precision_factor, n_points, random_state kind); two comparisons per contour point"},
        ],
        "samples": samples,
        "slowest_tasks": [{"case": tasks[i].get("case", tasks[i]["task"]), "seconds": round(s, 1)} for i, s in slow],
        "seconds": round(time.time() - t0, 2),
    }


def replay(doc):
    task = dict(doc["inputs"])
    T, _ = _run_task(task)
    want = doc.get("clause")
    case = doc.get("case")
    fails = [f for f in T.failures if (want is None or f["clause"].split(":")[0] == want.split(":")[0]) and (case is None or f["case"] == case or task["task"] not in ("vt", "triple"))]
    return len(fails) == 0
