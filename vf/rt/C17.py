"""RTC driver C17 - design conditions lie on the contour at the requested abscissa, top ordinate;
the curve-intersection routine returns exactly the crossing points (bounded stand-in, never counted as proved).

Clauses (properties.jsonl C17), each checked on the real `calculate_design_conditions` / `intersection`:
  dc.call      the call succeeds for every closed 2-D contour and list / number of abscissae
  dc.abscissa  every returned x is one of the requested abscissae (bitwise), in the requested order
  dc.on        every returned point lies on the closed contour polygon (distance <= 1e-8 * extent)
  dc.top       the returned ordinate is the largest ordinate among ALL crossings at that abscissa
  dc.omitted   exactly the abscissae that do not cross the contour are omitted
  dc.default   default abscissae (steps None -> 10, int k -> k) span the extent: all returned, first/last within
               1e-3 * extent of the contour's min / max abscissa
  dc.swap      swap_axis=True == exchanging the two coordinate columns (bitwise)
  ix.exact     intersection() returns exactly the crossing points of two polylines in general position
  ix.on        each returned point lies on both polylines (distance <= 1e-8 * extent)

The reference is an independent segment-by-segment computation (sign changes of x - a along the closed polygon;
orientation tests and the parametric solution for polyline pairs). Inputs that are not in general position
(abscissa within 1e-7 * extent of a vertex, nearly parallel or end-touching segment pairs) are regenerated.

Scenario classes carry what the reference says about them in the case id (mc = maximal number of crossings over
the used abscissae: "2" or "gt2"; ord = sign of the largest ordinate: "pos"/"neg"), so that a case id denotes
the same situation for every seed.
"""
import math
import time

import numpy as np

import virocon
from virocon import (
    DirectSamplingContour,
    IFORMContour,
    ISORMContour,
    calculate_design_conditions,
)
from virocon._intersection import intersection

from ._common_D import Tally, build_model, jsonable, last_line, random_spec

TOL = 1e-8  # relative to the extent of the figure ("lies on"): round-off of a 4x4 solve in general position
GP = 1e-7  # general-position margin (relative)


class _Poly:
    """minimal closed 2-D contour: only `.coordinates` is read by calculate_design_conditions"""

    def __init__(self, coords):
        self.coordinates = np.array(coords, dtype=float)


# ------------------------------------------------------------------------------- reference geometry
def _closed(coords, x_idx):
    y_idx = 1 - x_idx
    x = np.append(coords[:, x_idx], coords[0, x_idx])
    y = np.append(coords[:, y_idx], coords[0, y_idx])
    return x, y


def _ref_crossings(x, y, a):
    """ordinates where the vertical line X = a crosses the closed polyline (x, y); None if `a` is not in general
    position with respect to the vertices"""
    ext = max(np.ptp(x), np.ptp(y), 1e-300)
    if np.min(np.abs(x - a)) < GP * ext:
        return None
    d = x - a
    idx = np.nonzero(d[:-1] * d[1:] < 0)[0]
    out = []
    for i in idx:
        dx = x[i + 1] - x[i]
        seg = math.hypot(dx, y[i + 1] - y[i])
        if abs(dx) < 1e-6 * seg:  # nearly vertical edge: ill-conditioned, not general position
            return None
        t = (a - x[i]) / dx
        out.append(y[i] + t * (y[i + 1] - y[i]))
    return sorted(out)


def _dist_to_polyline(px, py, x, y):
    ax, ay, bx, by = x[:-1], y[:-1], x[1:], y[1:]
    dx, dy = bx - ax, by - ay
    L2 = dx * dx + dy * dy
    with np.errstate(divide="ignore", invalid="ignore"):
        t = np.where(L2 > 0, ((px - ax) * dx + (py - ay) * dy) / np.where(L2 > 0, L2, 1.0), 0.0)
    t = np.clip(t, 0.0, 1.0)
    return float(np.min(np.hypot(px - (ax + t * dx), py - (ay + t * dy))))


def _ref_polyline_crossings(x1, y1, x2, y2):
    """all proper crossings of two polylines, None if some segment pair is not in general position"""
    ext = max(np.ptp(np.r_[x1, x2]), np.ptp(np.r_[y1, y2]), 1e-300)
    pts = []
    for i in range(len(x1) - 1):
        p = np.array([x1[i], y1[i]])
        r = np.array([x1[i + 1] - x1[i], y1[i + 1] - y1[i]])
        for j in range(len(x2) - 1):
            q = np.array([x2[j], y2[j]])
            s = np.array([x2[j + 1] - x2[j], y2[j + 1] - y2[j]])
            den = r[0] * s[1] - r[1] * s[0]
            nr, ns = math.hypot(*r), math.hypot(*s)
            if nr < GP * ext or ns < GP * ext:
                return None
            qp = q - p
            if abs(den) < 1e-6 * nr * ns:
                # nearly parallel: fine if the segments are clearly apart, otherwise not general position
                dist = abs(qp[0] * r[1] - qp[1] * r[0]) / nr
                if dist < 1e-3 * ext:
                    return None
                continue
            t = (qp[0] * s[1] - qp[1] * s[0]) / den
            u = (qp[0] * r[1] - qp[1] * r[0]) / den
            m = 1e-6
            near_end = any(abs(v) < m or abs(v - 1) < m for v in (t, u))
            inside = (-m < t < 1 + m) and (-m < u < 1 + m)
            if near_end and inside:
                return None
            if 0 < t < 1 and 0 < u < 1:
                pts.append(p + t * r)
    return np.array(pts).reshape(-1, 2)


# ------------------------------------------------------------------------------- scenario sources
def _star(rng, n_vert, depth, center, scale):
    """star-shaped polygon around `center`: radii alternate between 1 and (1 - depth), jittered"""
    th = np.sort((np.arange(n_vert) + rng.uniform(-0.3, 0.3, n_vert)) * 2 * np.pi / n_vert) + rng.uniform(0, 2 * np.pi)
    r = np.where(np.arange(n_vert) % 2 == 0, 1.0, 1.0 - depth) * rng.uniform(0.9, 1.1, n_vert)
    sx, sy = scale
    return np.c_[center[0] + sx * r * np.cos(th), center[1] + sy * r * np.sin(th)]


def _convex(rng, n_vert, center, scale):
    th = np.sort(rng.uniform(0, 2 * np.pi, n_vert))
    # vertices on an ellipse are in convex position
    return np.c_[center[0] + scale[0] * np.cos(th), center[1] + scale[1] * np.sin(th)]


FIXED_STAR = [[5.0 + r * math.cos(0.37 + k * math.pi / 5), 4.0 + r * math.sin(0.37 + k * math.pi / 5)]
              for k, r in ((k, 2.0 if k % 2 == 0 else 0.7) for k in range(10))]
FIXED_PENTAGON_NEG = [[0.0, -3.0], [1.0, -2.0], [3.0, -2.05], [4.0, -3.0], [2.0, -8.0]]
FIXED_ELLIPSE_NEG = [[5.0 + 2.0 * math.cos(0.2 + k * math.pi / 8), -5.0 + 1.0 * math.sin(0.2 + k * math.pi / 8)] for k in range(16)]


def _contour_coords(src):
    """coordinates of a real virocon contour described by a JSON-able recipe"""
    model, _ = build_model(src["model"])
    m = src["method"]
    if m == "IFORM":
        c = IFORMContour(model, src["alpha"], n_points=src["n_points"])
    elif m == "ISORM":
        c = ISORMContour(model, src["alpha"], n_points=src["n_points"])
    elif m == "DS":
        sample = model.draw_sample(src["n"], random_state=src["sample_seed"])
        c = DirectSamplingContour(model, src["alpha"], deg_step=src["deg_step"], sample=sample)
    else:
        raise ValueError(m)
    return c


def _get_contour(src):
    if src["kind"] == "poly":
        return _Poly(src["coords"])
    return _contour_coords(src)


def _default_abscissae(x, num):
    sp = 0.0001 * (np.max(x) - np.min(x))
    return np.linspace(np.min(x) + sp, np.max(x) - sp, endpoint=True, num=num)


def _steps_arg(inp):
    st = inp["steps"]
    cont = inp.get("container", "list")
    if isinstance(st, int) and cont in ("np.int64", "np.int32"):
        return getattr(np, cont[3:])(st)  # a NumPy integer is a number of abscissae just like a built-in int
    if st is None or isinstance(st, int):
        return st
    if cont == "tuple":
        return tuple(st)
    if cont == "ndarray":
        return np.array(st, dtype=float)
    return list(st)


def _classify(coords, x_idx, abscissae):
    """(mc, ord, general_position) of a design-condition scenario from the reference"""
    x, y = _closed(coords, x_idx)
    mc = 0
    for a in abscissae:
        if a <= np.min(x) or a >= np.max(x):
            if min(abs(a - np.min(x)), abs(a - np.max(x))) < GP * max(np.ptp(x), 1e-300):
                return None
            continue
        ys = _ref_crossings(x, y, a)
        if ys is None:
            return None
        mc = max(mc, len(ys))
    return ("gt2" if mc > 2 else "2"), ("pos" if np.max(y) > 0 else "neg")


# ------------------------------------------------------------------------------- the contract checks
def _check_dc(inp, T, case):
    """all dc.* clauses on one scenario"""
    contour = _get_contour(inp["source"])
    coords = np.array(contour.coordinates, dtype=float)
    swap = bool(inp["swap"])
    x_idx = 1 if swap else 0
    x, y = _closed(coords, x_idx)
    ext = max(np.ptp(x), np.ptp(y))
    steps = _steps_arg(inp)
    if steps is None:
        absc, is_default, num = _default_abscissae(x, 10), True, 10
    elif isinstance(steps, (int, np.integer)):
        absc, is_default, num = _default_abscissae(x, int(steps)), True, int(steps)
    else:
        absc, is_default, num = np.asarray(steps, dtype=float), False, len(steps)
    G = "design conditions"
    before = coords.copy()
    try:
        dc = calculate_design_conditions(contour, steps=steps, swap_axis=swap)
        err = None
    except Exception:
        dc, err = None, last_line()
    if not T.check(err is None, G, case, "dc.call: design conditions are returned for every closed 2-D contour and list (or number) of abscissae",
                   f"calculate_design_conditions raised {err}", inp):
        return
    dc = np.asarray(dc, dtype=float).reshape(-1, 2)
    T.check(np.array_equal(np.asarray(contour.coordinates, dtype=float), before), G, case, "dc.call: contour unchanged", "coordinates were modified", inp)

    if inp.get("degenerate"):
        # abscissae exactly on a vertical edge / on a vertex: no unique crossing set, but whatever is returned has to be
        # at a requested abscissa and ON the polygon
        T.check(len(dc) > 0 and all(any(float(g) == float(a) for a in absc) for g in dc[:, 0]), G, case,
                "dc.abscissa: each design condition is at a requested abscissa", f"returned abscissae {dc[:, 0].tolist()} requested {absc.tolist()}", inp)
        for k in range(len(dc)):
            d = _dist_to_polyline(dc[k, 0], dc[k, 1], x, y)
            T.check(d <= TOL * ext, G, case, "dc.on: each design condition lies on the contour polygon",
                    f"point {dc[k].tolist()} is {d:.3g} away from the polygon (extent {ext:.3g})", inp)
        if inp.get("expected_top"):
            # the polygon is crossed (or touched along an edge) at every one of these abscissae: none may be omitted, and
            # the ordinate is the largest one the polygon has there
            want = {float(a): float(t) for a, t in inp["expected_top"]}
            got = {float(a): float(t) for a, t in dc}
            T.check(set(got) == set(want) and all(abs(got[a] - want[a]) <= TOL * ext for a in want), G, case,
                    "dc.top: the design condition carries the largest ordinate among all intersections (abscissae through vertices / along edges included)",
                    f"returned {sorted(got.items())}, the polygon's largest ordinates there: {sorted(want.items())}", inp)
        return
    # reference per abscissa
    ref = []
    for a in absc:
        if a < np.min(x) or a > np.max(x):
            ref.append([])
        else:
            ref.append(_ref_crossings(x, y, a) or [])
    expected_x = [a for a, r in zip(absc, ref) if len(r) > 0]
    expected_top = [max(r) for r in ref if len(r) > 0]

    if is_default:
        ok = len(dc) == num and len(dc) > 0 and (dc[0, 0] - np.min(x)) <= 1e-3 * ext and (np.max(x) - dc[-1, 0]) <= 1e-3 * ext \
            and np.all(dc[:, 0] > np.min(x)) and np.all(dc[:, 0] < np.max(x)) and np.all(np.diff(dc[:, 0]) > 0)
        T.check(ok, G, case, "dc.default: the default abscissae span the contour's extent",
                f"{len(dc)} of {num} default abscissae returned, x from {dc[:, 0].min() if len(dc) else None} to {dc[:, 0].max() if len(dc) else None}, "
                f"contour abscissae span [{np.min(x)}, {np.max(x)}]", inp)
        # match returned abscissae with the documented default grid (tolerance: they are recomputed here)
        got_x = dc[:, 0]
        matched = len(got_x) == len(expected_x) and np.allclose(got_x, expected_x, rtol=0, atol=1e-9 * ext)
    else:
        got_x = dc[:, 0]
        matched = len(got_x) == len(expected_x) and all(float(g) == float(e) for g, e in zip(got_x, expected_x))
        T.check(all(any(float(g) == float(a) for a in absc) for g in got_x), G, case,
                "dc.abscissa: each design condition is at a requested abscissa", f"returned abscissae {got_x.tolist()} requested {absc.tolist()}", inp)
    T.check(matched, G, case, "dc.omitted: exactly the abscissae that do not cross the contour are omitted",
            f"returned abscissae {np.round(got_x, 6).tolist()} but the contour is crossed at {np.round(expected_x, 6).tolist()} "
            f"(requested {np.round(absc, 6).tolist()})", inp)
    for k in range(len(dc)):
        d = _dist_to_polyline(dc[k, 0], dc[k, 1], x, y)
        T.check(d <= TOL * ext, G, case, "dc.on: each design condition lies on the contour polygon",
                f"point {dc[k].tolist()} is {d:.3g} away from the polygon (extent {ext:.3g})", inp)
    if matched:
        for k in range(len(dc)):
            T.check(abs(dc[k, 1] - expected_top[k]) <= TOL * ext, G, case,
                    "dc.top: the design condition carries the largest ordinate among all intersections",
                    f"abscissa {dc[k, 0]}: returned ordinate {dc[k, 1]}, crossings at {ref[[i for i, r in enumerate(ref) if r][k]]}", inp)
    # swap_axis == exchanging the columns
    other = _Poly(coords[:, ::-1])
    try:
        dc2 = np.asarray(calculate_design_conditions(other, steps=_steps_arg(inp), swap_axis=not swap), dtype=float).reshape(-1, 2)
        T.check(dc2.shape == dc.shape and np.array_equal(dc2, dc), G, case, "dc.swap: swap_axis is equivalent to exchanging the two coordinates",
                f"swap_axis={swap} gives {dc.tolist()[:3]}.., exchanged columns with swap_axis={not swap} give {dc2.tolist()[:3]}..", inp)
    except Exception:
        T.check(False, G, case, "dc.swap: swap_axis is equivalent to exchanging the two coordinates",
                f"call on the exchanged contour raised {last_line()}", inp)


def _check_ix(inp, T, case):
    x1, y1, x2, y2 = (np.array(inp[k], dtype=float) for k in ("x1", "y1", "x2", "y2"))
    G = "intersection"
    ref = _ref_polyline_crossings(x1, y1, x2, y2)
    assert ref is not None, "scenario not in general position"
    ext = max(np.ptp(np.r_[x1, x2]), np.ptp(np.r_[y1, y2]))
    args = (x1, y1, x2, y2)
    if inp.get("int_dtype"):
        args = tuple(np.array(inp[k], dtype=np.int64) for k in ("x1", "y1", "x2", "y2"))
    if inp.get("as_lists"):
        args = tuple(a.tolist() for a in args)
    try:
        gx, gy = intersection(*args)
    except Exception:
        T.check(False, G, case, "ix.exact: intersection returns the crossing points", f"raised {last_line()}", inp)
        return
    got = np.c_[gx, gy]
    ok = len(got) == len(ref)
    detail = f"{len(got)} points returned, {len(ref)} proper crossings"
    if ok and len(ref):
        used = np.zeros(len(ref), bool)
        for p in got:
            d = np.hypot(ref[:, 0] - p[0], ref[:, 1] - p[1])
            d[used] = np.inf
            k = int(np.argmin(d))
            if d[k] > TOL * ext:
                ok = False
                detail = f"returned point {p.tolist()} is {d[k]:.3g} away from the nearest unmatched crossing"
                break
            used[k] = True
    T.check(ok, G, case, "ix.exact: intersection returns exactly the crossing points of two polylines in general position", detail, inp)
    for p in got:
        d1 = _dist_to_polyline(p[0], p[1], x1, y1)
        d2 = _dist_to_polyline(p[0], p[1], x2, y2)
        T.check(max(d1, d2) <= TOL * ext, G, case, "ix.on: each returned point lies on both polylines",
                f"point {p.tolist()}: distance {d1:.3g} to curve 1, {d2:.3g} to curve 2", inp)


def _check(inp, T=None, case=None):
    T = T or Tally()
    case = case or inp.get("case", "replay")
    if inp["type"] == "dc":
        _check_dc(inp, T, case)
    else:
        _check_ix(inp, T, case)
    return T


# ------------------------------------------------------------------------------- scenario generation
def _abscissa_lists(rng, x, kind):
    lo, hi = np.min(x), np.max(x)
    w = hi - lo
    mid = rng.uniform(lo + 0.35 * w, hi - 0.35 * w, 1)  # every list probes the central part at least once
    if kind == "inside":
        return sorted(np.r_[mid, rng.uniform(lo + 0.02 * w, hi - 0.02 * w, int(rng.integers(0, 6)))].tolist())
    if kind == "mixed":  # inside and outside, unsorted
        a = np.r_[mid, rng.uniform(lo + 0.02 * w, hi - 0.02 * w, int(rng.integers(0, 4))), lo - rng.uniform(0.05, 2.0, 2) * w, hi + rng.uniform(0.05, 2.0, 2) * w]
        return rng.permutation(a).tolist()
    if kind == "outside":
        return [float(lo - rng.uniform(0.05, 1.0) * w), float(hi + rng.uniform(0.05, 1.0) * w)]
    raise ValueError(kind)


def _gen_poly_scenarios(rng, T, n_rep):
    """random convex / star-shaped polygons in all four quadrants x steps kinds x swap, quota per class"""
    scen = []
    steps_kinds = ["none", "int", "inside", "mixed", "outside"]
    containers = ["list", "tuple", "ndarray"]
    for shape in ("convex", "star"):
        for ordsign in ("pos", "neg"):
            for sk in steps_kinds:
                for swap in (False, True):
                    wanted = ["2"] if shape == "convex" or sk == "outside" else ["2", "gt2"]
                    have = {w: 0 for w in wanted}
                    tries = 0
                    while any(v < n_rep for v in have.values()) and tries < 4000:
                        tries += 1
                        target = min(have, key=have.get)
                        scale = (float(rng.uniform(0.5, 5)), float(rng.uniform(0.5, 5)))
                        # "pos": largest ordinate positive (figure above or straddling zero); "neg": the whole figure
                        # inside the negative half plane of the ORDINATE axis, its centre 6..18 half-heights below zero
                        ord_c = (float(rng.uniform(-0.7, 4.0)) if ordsign == "pos" else -float(rng.uniform(6.0, 18.0))) * (scale[0] if swap else scale[1])
                        abs_c = float(rng.uniform(-8, 8))
                        center = (ord_c, abs_c) if swap else (abs_c, ord_c)
                        if shape == "convex":
                            coords = _convex(rng, int(rng.integers(5, 40)), center, scale)
                        else:
                            depth = float(rng.uniform(0.45, 0.8)) if target == "gt2" else float(rng.uniform(0.02, 0.15))
                            coords = _star(rng, 2 * int(rng.integers(3, 12)), depth, center, scale)
                        x, _ = _closed(coords, 1 if swap else 0)
                        if sk == "none":
                            steps, absc = None, _default_abscissae(x, 10)
                        elif sk == "int":
                            steps = int(rng.integers(3, 16))
                            absc = _default_abscissae(x, steps)
                        else:
                            steps = _abscissa_lists(rng, x, sk)
                            absc = steps
                        cl = _classify(coords, 1 if swap else 0, absc)
                        if cl is None:
                            T.key(("dc", "degenerate", tries), nontrivial=False)
                            continue
                        mc, od = cl
                        if od != ordsign or mc not in have or have[mc] >= n_rep:
                            continue
                        have[mc] += 1
                        inp = {"type": "dc", "source": {"kind": "poly", "coords": coords.tolist()}, "steps": steps,
                               "container": containers[int(rng.integers(0, 3))], "swap": swap}
                        scen.append((f"dc/{shape}/steps={sk}/swap={int(swap)}/mc={mc}/ord={od}", inp))
    return scen


def _gen_contour_scenarios(rng, T, n_rep, tier):
    scen = []
    structs = ["dnvgl_hs_tz", "omae_hs_tz", "dnvgl_hs_u", "omae_v_hs", "indep2"]
    steps_kinds = ["none", "int", "inside", "mixed"]
    for method in ("IFORM", "ISORM", "DS"):
        for swap in (False, True):
            for sk in steps_kinds:
                got, tries = 0, 0
                while got < n_rep and tries < 60:
                    tries += 1
                    spec = random_spec(rng, structs[int(rng.integers(0, len(structs)))])
                    src = {"kind": "contour", "method": method, "model": spec, "alpha": float(10 ** rng.uniform(-3, -1))}
                    if method == "DS":
                        src.update(n=int(rng.integers(3000, 12000)), sample_seed=int(rng.integers(0, 2**31)), deg_step=[3, 5, 7, 9, 10][int(rng.integers(0, 5))])
                        src["alpha"] = float(10 ** rng.uniform(-2, -1))
                    else:
                        src["n_points"] = int(rng.integers(12, 90))
                    coords = np.array(_contour_coords(src).coordinates, dtype=float)
                    if not np.all(np.isfinite(coords)):
                        T.key(("dc", "nonfinite", method), nontrivial=False)
                        continue
                    x, _ = _closed(coords, 1 if swap else 0)
                    if sk == "none":
                        steps, absc = None, _default_abscissae(x, 10)
                    elif sk == "int":
                        steps = int(rng.integers(3, 16))
                        absc = _default_abscissae(x, steps)
                    else:
                        steps = _abscissa_lists(rng, x, sk)
                        absc = steps
                    cl = _classify(coords, 1 if swap else 0, absc)
                    if cl is None or cl[0] != "2":
                        # more than two crossings on a model contour: covered deterministically by the star classes
                        T.key(("dc", "skipped", method, tries), nontrivial=False)
                        continue
                    got += 1
                    inp = {"type": "dc", "source": src, "steps": steps, "container": ["list", "tuple", "ndarray"][int(rng.integers(0, 3))], "swap": swap}
                    scen.append((f"dc/{method}/steps={sk}/swap={int(swap)}/mc=2/ord={cl[1]}", inp))
    return scen


def _fixed_scenarios():
    """deterministic scenarios, independent of the seed"""
    scen = []
    star = FIXED_STAR
    for swap in (False, True):
        # abscissa through two spikes of the fixed star: four crossings
        a = 5.9 if not swap else 2.9
        scen.append((f"dc/fixed-star/steps=list/swap={int(swap)}/mc=gt2/ord=pos",
                     {"type": "dc", "source": {"kind": "poly", "coords": star}, "steps": [a], "container": "list", "swap": swap}))
        scen.append((f"dc/fixed-star/steps=none/swap={int(swap)}/mc=gt2/ord=pos",
                     {"type": "dc", "source": {"kind": "poly", "coords": star}, "steps": None, "container": "list", "swap": swap}))
    scen.append(("dc/fixed-ellipse/steps=list/swap=0/mc=2/ord=neg",
                 {"type": "dc", "source": {"kind": "poly", "coords": FIXED_ELLIPSE_NEG}, "steps": [4.1, 5.3, 6.2], "container": "list", "swap": False}))
    scen.append(("dc/fixed-ellipse/steps=none/swap=0/mc=2/ord=neg",
                 {"type": "dc", "source": {"kind": "poly", "coords": FIXED_ELLIPSE_NEG}, "steps": None, "container": "list", "swap": False}))
    scen.append(("dc/fixed-pentagon/steps=list/swap=0/mc=2/ord=neg",
                 {"type": "dc", "source": {"kind": "poly", "coords": FIXED_PENTAGON_NEG}, "steps": [2.5], "container": "list", "swap": False}))
    scen.append(("dc/fixed-pentagon/steps=list/swap=0/mc=2/ord=pos",
                 {"type": "dc", "source": {"kind": "poly", "coords": [[p[0], p[1] + 10.0] for p in FIXED_PENTAGON_NEG]}, "steps": [2.5], "container": "list", "swap": False}))
    pos = [[p[0], p[1] + 10.0] for p in FIXED_ELLIPSE_NEG]
    for swap in (False, True):
        scen.append((f"dc/fixed-ellipse/steps=int2/swap={int(swap)}/mc=2/ord=pos",
                     {"type": "dc", "source": {"kind": "poly", "coords": pos}, "steps": 2, "container": "list", "swap": swap}))
    scen.append(("dc/fixed-ellipse/steps=list/swap=0/mc=2/ord=pos",
                 {"type": "dc", "source": {"kind": "poly", "coords": pos}, "steps": [4.1, 5.3, 6.2, 99.0], "container": "list", "swap": False}))
    # the number of abscissae given as a NumPy integer
    for cont in ("np.int64", "np.int32"):
        scen.append((f"dc/fixed-ellipse/steps=npint/swap=0/mc=2/ord=pos",
                     {"type": "dc", "source": {"kind": "poly", "coords": pos}, "steps": 5, "container": cont, "swap": False}))
    # abscissae exactly on a vertical edge and on a vertex of a polygon lying below 0
    house = [[1.0, -5.0], [4.0, -5.0], [4.0, -2.0], [2.5, -1.0], [1.0, -2.0]]
    for swap in (False, True):
        src = house if not swap else [[p[1], p[0]] for p in house]
        scen.append((f"dc/fixed-house/steps=list/swap={int(swap)}/on-vertical-edge",
                     {"type": "dc", "source": {"kind": "poly", "coords": src}, "steps": [4.0, 2.5, 1.0, 3.0], "container": "list", "swap": swap, "degenerate": True,
                      "expected_top": [[4.0, -2.0], [2.5, -1.0], [1.0, -2.0], [3.0, -4.0 / 3.0]]}))
    return scen


def _gen_ix_scenarios(rng, T, n_rep):
    scen = []

    def walk(n, box=10.0):
        step = rng.normal(0, box / 4, size=(n, 2))
        p = np.cumsum(step, axis=0)
        return p[:, 0], p[:, 1]

    kinds = ["walk-walk", "sine-line", "loop-loop", "zigzag-vertical", "segment-segment", "disjoint", "walk-short", "walk-walk-int"]
    for kind in kinds:
        got, tries = 0, 0
        while got < n_rep and tries < 500:
            tries += 1
            if kind == "walk-walk":
                x1, y1 = walk(int(rng.integers(3, 40)))
                x2, y2 = walk(int(rng.integers(3, 40)))
            elif kind == "walk-walk-int":
                # whole-number vertices in integer-typed arrays (grid data): the crossings are still real numbers
                x1, y1 = (np.round(v).astype(np.int64) for v in walk(int(rng.integers(3, 25)), box=40.0))
                x2, y2 = (np.round(v).astype(np.int64) for v in walk(int(rng.integers(3, 25)), box=40.0))
            elif kind == "walk-short":
                x1, y1 = walk(int(rng.integers(20, 60)))
                x2, y2 = walk(2, box=40.0)
            elif kind == "sine-line":
                n = int(rng.integers(10, 80))
                x1 = np.sort(rng.uniform(0, 12, n))
                y1 = rng.uniform(0.5, 3) * np.sin(rng.uniform(0.5, 3) * x1 + rng.uniform(0, 6))
                x2 = np.array([-1.0, 13.0]) + rng.normal(0, 0.1, 2)
                y2 = rng.uniform(-1, 1, 2)
            elif kind == "loop-loop":
                n1, n2 = int(rng.integers(5, 40)), int(rng.integers(5, 40))
                c1 = _star(rng, n1, float(rng.uniform(0, 0.5)), (0, 0), (2, 3))
                c2 = _star(rng, n2, float(rng.uniform(0, 0.5)), (float(rng.uniform(-2, 2)), float(rng.uniform(-2, 2))), (3, 2))
                x1, y1 = np.append(c1[:, 0], c1[0, 0]), np.append(c1[:, 1], c1[0, 1])
                x2, y2 = np.append(c2[:, 0], c2[0, 0]), np.append(c2[:, 1], c2[0, 1])
            elif kind == "zigzag-vertical":
                n = int(rng.integers(4, 30))
                x1 = np.cumsum(rng.uniform(0.2, 1.0, n))
                y1 = np.where(np.arange(n) % 2 == 0, 0.0, 1.0) * rng.uniform(1, 3) + rng.normal(0, 0.05, n)
                a = float(rng.uniform(x1[0], x1[-1]))
                x2 = np.array([a, a, a])  # exactly vertical probe, as in calculate_design_conditions (3 nodes)
                y2 = np.array([-1.0, 0.7, 5.0])
            elif kind == "segment-segment":
                x1, y1 = rng.uniform(-5, 5, 2), rng.uniform(-5, 5, 2)
                x2, y2 = rng.uniform(-5, 5, 2), rng.uniform(-5, 5, 2)
            else:  # disjoint
                x1, y1 = walk(int(rng.integers(3, 20)), box=2.0)
                x2, y2 = walk(int(rng.integers(3, 20)), box=2.0)
                x2 = x2 + (np.max(x1) - np.min(x2)) + 1.0
            ref = _ref_polyline_crossings(x1, y1, x2, y2)
            if ref is None:
                T.key(("ix", "degenerate", kind, tries), nontrivial=False)
                continue
            # balance crossing / non-crossing for segment pairs
            if kind == "segment-segment" and (got % 2 == 0) != (len(ref) == 1):
                continue
            got += 1
            inp = {"type": "ix", "x1": x1.tolist(), "y1": y1.tolist(), "x2": x2.tolist(), "y2": y2.tolist(), "as_lists": bool(rng.integers(0, 2)),
                   "int_dtype": kind.endswith("-int")}
            scen.append((f"ix/{kind}", inp))
    return scen


# ------------------------------------------------------------------------------- entry points
def run(tier, seed):
    t0 = time.time()
    rng = np.random.default_rng(seed)
    T = Tally()
    n_poly = 2 if tier == "quick" else 80
    n_cont = 1 if tier == "quick" else 20
    n_ix = 25 if tier == "quick" else 4000
    scen = _fixed_scenarios() + _gen_poly_scenarios(rng, T, n_poly) + _gen_contour_scenarios(rng, T, n_cont, tier) + _gen_ix_scenarios(rng, T, n_ix)
    for case, inp in scen:
        inp = dict(inp, case=case)
        _check(inp, T, case)
        if inp["type"] == "dc":
            src = inp["source"]
            k = ("dc", case, repr(src.get("coords", src.get("model")))[:200], repr(inp["steps"])[:80])
        else:
            k = ("ix", case, repr(inp["x1"])[:120])
        T.key(k)
        if len(T.samples) < 6 and (len(T.samples) == 0 or T.samples[-1]["case"].split("/")[1] != case.split("/")[1]):
            T.samples.append({"case": case, "inputs": jsonable({k2: (v if k2 != "source" or v["kind"] != "poly" else {"kind": "poly", "n_vertices": len(v["coords"])})
                                                              for k2, v in inp.items() if k2 not in ("x1", "y1", "x2", "y2")})})
    g = T.groups
    return {
        "evaluations": T.evaluations,
        "distinct_nontrivial": len(T.keys),
        "failures": jsonable(T.failures),
        "bounded": [
            {"what": "calculate_design_conditions on closed 2-D contours (IFORM/ISORM/direct-sampling contours of random 2-D models of 5 structures; "
                     "random convex and star-shaped polygons in both ordinate half planes; fixed star and ellipse)",
             "bound": f"{sum(1 for c, _ in scen if c.startswith('dc/'))} scenarios: steps None / int 2..15 (2 on a fixed ellipse only) / list, tuple, ndarray inside, mixed, outside the range; both swap_axis values; polygons of 5..40 vertices",
             "evaluations": g.get("design conditions", 0),
             "rule": "distinct = (case class, polygon or model parameters, steps); trivial = not in general position (abscissa within 1e-7*extent of a vertex, nearly vertical edge) or model contour with >2 crossings (regenerated, covered by the star classes)"},
            {"what": "virocon._intersection.intersection on random polyline pairs (random walks, sine vs line, closed loops, zigzag vs exactly vertical probe, single segments, disjoint curves)",
             "bound": f"{sum(1 for c, _ in scen if c.startswith('ix/'))} pairs of 2..60 nodes, ndarray and list inputs",
             "evaluations": g.get("intersection", 0),
             "rule": "distinct = polyline pair; trivial = not in general position (nearly parallel close segments, crossing within 1e-6 of a segment end), regenerated"},
        ],
        "samples": T.samples,
        "trivial_regenerated": T.trivial,
        "seconds": round(time.time() - t0, 2),
    }


def replay(doc):
    inp = doc["inputs"]
    T = _check(inp, Tally(), doc.get("case", "replay"))
    want = doc.get("clause")
    fails = [f for f in T.failures if want is None or f["clause"].split(":")[0] == want.split(":")[0]]
    return len(fails) == 0
