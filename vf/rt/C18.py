"""RTC driver for C18 - ill-formed model, fit and contour specifications are rejected, not computed
(bounded stand-in, never counted as proved).

One predicate per scenario: the entry point at which the malformed specification is SUPPLIED raises an exception
(any `Exception`; the observed type is reported) instead of returning a result. Where it is supplied:

  model descriptions ............ `GlobalHierarchicalModel(dist_descriptions)`
  data / fit descriptions ....... `model.fit(data, fit_descriptions)`
  HDC limits / deltas ........... `HighestDensityContour(model, alpha, limits, deltas)`
  non-finite evaluation points .. `model.pdf(x)`, `model.cdf(x)`
  2-D-only contours ............. `DirectSamplingContour / AndContour / OrContour (model with n_dim != 2, ...)`
  IFORM model type .............. `IFORMContour(not-a-model, alpha)`
  slicer options ................ slicer constructor; reference keywords: `slice_` (before any result exists);
                                  too few intervals: `slice_`

Every malformation is injected into an otherwise VALID specification (the valid baseline is built and, where cheap,
exercised first; a baseline that does not work is reported as `baseline/...` because it would make the scenario
vacuous). Malformations are placed at every dimension / position of 1-4 dimensional descriptions, with every
distribution family as carrier at the malformed position, singly and in pairs.

Case ids: `<group>/<malformation class>` (no positions, families or seeds).
"""

import copy
import itertools

import numpy as np

from virocon import (
    AndContour,
    DependenceFunction,
    DirectSamplingContour,
    ExponentiatedWeibullDistribution,
    GeneralizedGammaDistribution,
    GlobalHierarchicalModel,
    HighestDensityContour,
    IFORMContour,
    LogNormalDistribution,
    NormalDistribution,
    NumberOfIntervalsSlicer,
    OrContour,
    PointsPerIntervalSlicer,
    ScipyDistribution,
    VonMisesDistribution,
    WeibullDistribution,
    WidthOfIntervalSlicer,
)
from virocon.distributions import LogNormalNormFitDistribution

from vf.rt._common_C import Recorder, jsonable, last_line, replay_with


class _GammaDistribution(ScipyDistribution):
    scipy_dist_name = "gamma"


# family -> (class, parameter names in order)
FAM = {
    "weibull": (WeibullDistribution, ["alpha", "beta", "gamma"]),
    "lognormal": (LogNormalDistribution, ["mu", "sigma"]),
    "normal": (NormalDistribution, ["mu", "sigma"]),
    "ew": (ExponentiatedWeibullDistribution, ["alpha", "beta", "delta"]),
    "gengamma": (GeneralizedGammaDistribution, ["m", "c", "lambda_"]),
    "vonmises": (VonMisesDistribution, ["kappa", "mu"]),
    "lognormal_normfit": (LogNormalNormFitDistribution, ["mu_norm", "sigma_norm"]),
    "scipy_gamma": (_GammaDistribution, ["a", "loc", "scale"]),
}
FAMS = list(FAM)
FIXVAL = {"gamma": 0.0, "loc": 0.0}


def _dep(x, a=1.0, b=0.1):
    return a + b * x


def _valid_descs(cond_on, families, with_slicers=False):
    """a valid description list: unconditional dims plain, conditional dims with the LAST parameter fixed and the
    others given by dependence functions."""
    descs = []
    for i, (c, fam) in enumerate(zip(cond_on, families)):
        cls, names = FAM[fam]
        if c is None:
            d = {"distribution": cls()}
        else:
            fixed = names[-1]
            d = {
                "distribution": cls(**{f"f_{fixed}": FIXVAL.get(fixed, 1.0)}),
                "conditional_on": c,
                "parameters": {nm: DependenceFunction(_dep) for nm in names[:-1]},
            }
        if with_slicers:
            d["intervals"] = NumberOfIntervalsSlicer(3, min_n_points=10)
        descs.append(d)
    return descs


# ----------------------------------------------------------------------------------------------
# malformations of model descriptions: fn(descs, pos, cond_on, families, arg)
# ----------------------------------------------------------------------------------------------
def _m_no_distribution(descs, i, cond_on, fams, arg):
    del descs[i]["distribution"]


def _m_cond_without_params(descs, i, cond_on, fams, arg):
    if "conditional_on" not in descs[i]:
        descs[i]["conditional_on"] = max(i - 1, 0)
    descs[i].pop("parameters", None)


def _m_unknown_key(descs, i, cond_on, fams, arg):
    descs[i][arg or "interval"] = 1


def _m_unknown_param(descs, i, cond_on, fams, arg):
    descs[i]["parameters"][arg or "bogus"] = DependenceFunction(_dep)


def _m_both(descs, i, cond_on, fams, arg):
    cls, names = FAM[fams[i]]
    descs[i]["parameters"][names[-1]] = DependenceFunction(_dep)  # names[-1] is the fixed one


def _m_neither(descs, i, cond_on, fams, arg):
    cls, names = FAM[fams[i]]
    del descs[i]["parameters"][names[int(arg or 0) % (len(names) - 1)]]


def _m_first_conditional(descs, i, cond_on, fams, arg):
    cls, names = FAM[fams[0]]
    fixed = names[-1]
    descs[0] = {
        "distribution": cls(**{f"f_{fixed}": FIXVAL.get(fixed, 1.0)}),
        "conditional_on": int(arg or 0),
        "parameters": {nm: DependenceFunction(_dep) for nm in names[:-1]},
    }


def _m_cond_on(descs, i, cond_on, fams, arg):
    descs[i]["conditional_on"] = int(arg)


MODEL_MAL = {
    "no_distribution": (_m_no_distribution, "any"),
    "cond_without_params": (_m_cond_without_params, "any"),
    "unknown_key": (_m_unknown_key, "any"),
    "unknown_param": (_m_unknown_param, "cond"),
    "both_fixed_and_dependent": (_m_both, "cond"),
    "neither_fixed_nor_dependent": (_m_neither, "cond"),
    "first_conditional": (_m_first_conditional, "first"),
    "cond_on_self": (_m_cond_on, "cond"),
    "cond_on_later": (_m_cond_on, "cond"),
    "cond_on_nonexistent": (_m_cond_on, "cond"),
    "cond_on_negative": (_m_cond_on, "cond"),
}


def _raises(fn):
    """-> (raised?, description)"""
    try:
        res = fn()
    except Exception as e:  # noqa: BLE001 - any exception is a rejection
        return True, last_line(e)
    return False, f"returned {type(res).__name__}"


def _eval_model(inp):
    cond_on, fams = inp["cond_on"], inp["families"]
    try:
        GlobalHierarchicalModel(_valid_descs(cond_on, fams))
    except Exception as e:
        return [("baseline/model", "the unmodified description must be valid", False, last_line(e))]
    descs = _valid_descs(cond_on, fams)
    names = []
    for m in inp["mal"]:
        fn, _ = MODEL_MAL[m["cls"]]
        fn(descs, m["pos"], cond_on, fams, m.get("arg"))
        names.append(m["cls"])
    case = "model/" + names[0] if len(names) == 1 else "pair/model/" + "+".join(sorted(names))
    ok, what = _raises(lambda: GlobalHierarchicalModel(descs))
    return [(case, "ill-formed model descriptions raise an exception where they are supplied", ok,
             f"{inp['mal']} on cond_on={cond_on}, families={fams}: {what}")]


# ----------------------------------------------------------------------------------------------
# fit group
# ----------------------------------------------------------------------------------------------
def _fit_data(n_dim, n, seed):
    rng = np.random.default_rng(seed)
    cols = [1.0 + 3.0 * rng.uniform(0, 1, n)]  # uniform: the three equal-width intervals of the baseline slicer are all populated
    for i in range(1, n_dim):
        cols.append(0.5 + 0.3 * cols[0] + rng.weibull(2.0, n))
    return np.c_[tuple(cols)]


_BASELINE = {}


def _eval_fit(inp):
    cond_on, fams = inp["cond_on"], inp["families"]
    n_dim = len(cond_on)
    data = _fit_data(n_dim, inp.get("n", 300), inp.get("seed", 1))
    fitd = [None if f is None else dict(f) for f in inp["fit"]] if inp.get("fit") is not None else None
    with np.errstate(all="ignore"):
        bkey = (str(cond_on), str(fams), str(inp.get("baseline_fit")), inp.get("n", 300), inp.get("seed", 1))
        if bkey not in _BASELINE:  # every (structure, families, valid fit options) baseline is fitted once per process
            try:
                GlobalHierarchicalModel(_valid_descs(cond_on, fams, True)).fit(data, copy.deepcopy(inp.get("baseline_fit")))
                _BASELINE[bkey] = None
            except Exception as e:
                _BASELINE[bkey] = last_line(e)
        if _BASELINE[bkey] is not None:
            return [("baseline/fit", "the unmodified fit must work", False, f"cond_on={cond_on}, families={fams}: {_BASELINE[bkey]}")]
        model = GlobalHierarchicalModel(_valid_descs(cond_on, fams, True))
        d = data
        if inp.get("data_cols") is not None:
            k = inp["data_cols"]
            d = data[:, :k] if k <= n_dim else np.c_[data, data[:, : k - n_dim]]
            if inp.get("data_as_list"):
                d = d.tolist()
        ok, what = _raises(lambda: model.fit(d, fitd))
    names = inp["classes"]
    case = "fit/" + names[0] if len(names) == 1 else "pair/fit/" + "+".join(sorted(names))
    return [(case, "data or fit descriptions of the wrong dimension or without method, unknown fit methods and weight keywords are rejected", ok,
             f"{names} fit={inp.get('fit')} data_cols={inp.get('data_cols')} on cond_on={cond_on}, families={fams}: {what}")]


# ----------------------------------------------------------------------------------------------
# contours / evaluation
# ----------------------------------------------------------------------------------------------
def _eval_model_for(n_dim, fams=None):
    cond_on = [None] + [i - 1 for i in range(1, n_dim)]
    fams = fams or (["weibull", "lognormal", "normal", "ew"][:n_dim])
    return GlobalHierarchicalModel(_valid_descs(cond_on, fams))


def _eval_hdc(inp):
    n_dim = inp["n_dim"]
    model = _eval_model_for(n_dim)
    limits = [(0.1, 4.1)] * n_dim
    deltas = inp.get("baseline_deltas", 1.0)
    out = []
    with np.errstate(all="ignore"):
        if inp.get("check_baseline"):
            try:
                HighestDensityContour(model, 0.2, limits=limits, deltas=deltas)
            except Exception as e:
                return [("baseline/hdc", "the unmodified HDC call must work", False, last_line(e))]
        lim = [tuple(x) if isinstance(x, list) else x for x in inp["limits"]] if inp.get("limits") is not None else limits
        dl = inp["deltas"] if inp.get("deltas") is not None else deltas
        ok, what = _raises(lambda: HighestDensityContour(model, 0.2, limits=lim, deltas=dl))
    names = inp["classes"]
    case = "hdc/" + names[0] if len(names) == 1 else "pair/hdc/" + "+".join(sorted(names))
    out.append((case, "malformed HDC limits/deltas are rejected", ok, f"n_dim={n_dim} limits={inp.get('limits')} deltas={inp.get('deltas')}: {what}"))
    return out


_BAD = {"nan": float("nan"), "inf": float("inf"), "-inf": float("-inf")}


def _eval_nonfinite(inp):
    n_dim = inp["n_dim"]
    model = _eval_model_for(n_dim)
    x = np.full((inp["rows"], n_dim), 1.5)
    for r, c, b in inp["bad"]:
        x[r, c] = _BAD[b]
    form = inp.get("form", "array")
    xin = x if form == "array" else (x.tolist() if form == "list" else x[0])
    with np.errstate(all="ignore"):
        ok, what = _raises(lambda: getattr(model, inp["fn"])(xin))
    return [(f"eval/nonfinite_{inp['fn']}", "non-finite evaluation points are rejected", ok,
             f"{inp['fn']}({form}, n_dim={n_dim}) with {inp['bad']}: {what}")]


_CONT2D = {"DirectSamplingContour": DirectSamplingContour, "AndContour": AndContour, "OrContour": OrContour}


def _eval_contour2d(inp):
    n_dim = inp["n_dim"]
    model = _eval_model_for(n_dim, ["weibull", "lognormal", "lognormal", "lognormal"][:n_dim])
    rng = np.random.default_rng(3)
    sample = 1.0 + rng.weibull(2.0, (2000, n_dim)) if inp.get("with_sample") else None
    kw = {"sample": sample} if sample is not None else {"n": 2000}
    with np.errstate(all="ignore"):
        ok, what = _raises(lambda: _CONT2D[inp["contour"]](model, 0.05, **kw))
    return [(f"contour2d/{inp['contour']}", "non-2-D models are rejected by the 2-D-only contours", ok,
             f"{inp['contour']}(model with n_dim={n_dim}, {'sample given' if sample is not None else 'n=2000'}): {what}")]


def _eval_iform_type(inp):
    what_model = {
        "string": "string", "none": None, "distribution": WeibullDistribution(), "dict": {"n_dim": 2}, "int": 3,
        "desc_list": _valid_descs([None, 0], ["weibull", "lognormal"]), "class": GlobalHierarchicalModel,
    }[inp["model"]]
    ok, what = _raises(lambda: IFORMContour(what_model, 0.01))
    return [("iform/model_type", "IFORM rejects objects that are not joint models", ok, f"IFORMContour({inp['model']}, 0.01): {what}")]


# ----------------------------------------------------------------------------------------------
# slicers
# ----------------------------------------------------------------------------------------------
def _slicer_cls(name):
    return {"width": WidthOfIntervalSlicer, "number": NumberOfIntervalsSlicer, "points": PointsPerIntervalSlicer}[name]


_FIRST = {"width": 0.5, "number": 4, "points": 20}


def _eval_slicer(inp):
    name = inp["slicer"]
    cls = _slicer_cls(name)
    rng = np.random.default_rng(5)
    data = np.round(2.0 * rng.weibull(1.5, inp.get("n", 200)), 2)
    what_cls = inp["cls"]
    if what_cls == "unknown_option":
        ok, what = _raises(lambda: cls(_FIRST[name], **{inp["option"]: inp.get("value", 1)}))
        return [(f"slicer/unknown_option/{name}", "unknown slicer options are rejected", ok, f"{cls.__name__}({_FIRST[name]}, {inp['option']}=...): {what}")]
    if what_cls == "reference_keyword":
        ref = {"__int__": 3, "__none__": None, "__list__": ["center"]}.get(inp["reference"], inp["reference"])
        try:
            sl = cls(_FIRST[name], reference=ref, min_n_points=1, min_n_intervals=1)
        except Exception as e:
            return [(f"slicer/reference_keyword/{name}", "unknown reference keywords are rejected", True, "constructor: " + last_line(e))]
        ok, what = _raises(lambda: sl.slice_(data))
        if not ok:
            try:
                refs = sl.slice_(data)[1]
                what += f"; references returned: {list(refs)[:3]}"
            except Exception:
                pass
        return [(f"slicer/reference_keyword/{name}", "unknown reference keywords are rejected", ok, f"{cls.__name__}(reference={inp['reference']!r}).slice_: {what}")]
    if what_cls == "too_few_intervals":
        kw = dict(inp["kw"])
        ok, what = _raises(lambda: cls(inp["first"], **kw).slice_(data))
        return [(f"slicer/too_few_intervals/{name}", "slicing that leaves too few intervals is rejected", ok, f"{cls.__name__}({inp['first']}, {kw}) on {len(data)} points: {what}")]
    raise ValueError(what_cls)


def _eval_fit_slicer(inp):
    """the same slicer malformations supplied through a model description, observed at model.fit."""
    name = inp["slicer"]
    cls = _slicer_cls(name)
    if inp["cls"] == "reference_keyword":
        sl = cls(_FIRST[name] if name != "points" else 60, reference=inp["reference"], min_n_points=10)
        case = f"fit_slicer/reference_keyword/{name}"
    else:
        sl = cls({"width": 50.0, "number": 2, "points": 250}[name], min_n_points=10, min_n_intervals=3)
        if name == "number":
            sl.min_n_intervals = 3
        case = f"fit_slicer/too_few_intervals/{name}"
    descs = _valid_descs([None, 0], ["weibull", "lognormal"], True)
    descs[0]["intervals"] = sl
    model = GlobalHierarchicalModel(descs)
    with np.errstate(all="ignore"):
        ok, what = _raises(lambda: model.fit(_fit_data(2, 300, 2)))
    return [(case, "unknown reference keywords / too few intervals are rejected when the model is fitted", ok, f"{cls.__name__} in a 2-D model: {what}")]


def _eval_refit_too_few(inp):
    """history: a model that was fitted successfully is fitted again to data (same size) that leave too few intervals -
    the second fit has to be rejected like a first one would be (nothing of the first slicing may be re-used)"""
    name = inp["slicer"]
    cls = _slicer_cls(name)
    sl = cls({"width": 1.0, "number": 6, "points": 60}[name], min_n_points=20, min_n_intervals=3)
    descs = _valid_descs([None, 0], ["weibull", "lognormal"], True)
    descs[0]["intervals"] = sl
    model = GlobalHierarchicalModel(descs)
    good = _fit_data(2, 600, 3)
    case = f"fit_slicer/refit_too_few_intervals/{name}"
    clause = "too few intervals are rejected when the model is fitted (also on a re-fit of an already fitted model)"
    try:
        with np.errstate(all="ignore"):
            model.fit(good)
    except Exception as e:
        return [(case, clause, True, f"first fit not possible ({type(e).__name__}): scenario not applicable")]
    bad = good.copy()
    if name == "points":
        bad = bad[:100]          # fewer observations than three chunks of 60
    else:
        # squeeze the conditioning variable into a narrow band: one or two intervals hold everything (same number of rows)
        bad[:, 0] = 1.0 + 0.2 * (bad[:, 0] - bad[:, 0].min()) / (np.ptp(bad[:, 0]) + 1e-12)
        if name == "number":
            bad[:5, 0] = 40.0 + np.arange(5)   # the range stays wide, but four of the six intervals are (nearly) empty
    with np.errstate(all="ignore"):
        fresh = GlobalHierarchicalModel(_valid_descs([None, 0], ["weibull", "lognormal"], True))
        fresh.distributions  # noqa: B018
        d2 = _valid_descs([None, 0], ["weibull", "lognormal"], True)
        d2[0]["intervals"] = cls({"width": 1.0, "number": 6, "points": 60}[name], min_n_points=20, min_n_intervals=3)
        first_ok, first_what = _raises(lambda: GlobalHierarchicalModel(d2).fit(bad))
        ok, what = _raises(lambda: model.fit(bad))
    if not first_ok:
        return [(case, clause, True, "the data would be accepted by a first fit as well: scenario not applicable")]
    return [(case, clause, ok, f"{cls.__name__}: a first fit to these data is rejected ({first_what}); the re-fit of the fitted model: {what}")]


_EVAL = {
    "model": _eval_model, "fit": _eval_fit, "hdc": _eval_hdc, "nonfinite": _eval_nonfinite, "contour2d": _eval_contour2d,
    "iform_type": _eval_iform_type, "slicer": _eval_slicer, "fit_slicer": _eval_fit_slicer, "refit_too_few": _eval_refit_too_few,
}


def evaluate(inputs):
    return _EVAL[inputs["kind"]](inputs)


def replay(doc):
    return replay_with(evaluate, doc)


# ----------------------------------------------------------------------------------------------
# generators
# ----------------------------------------------------------------------------------------------
STRUCTS = [
    [None],
    [None, 0], [None, None],
    [None, 0, 1], [None, 0, 0], [None, None, 1], [None, None, None],
    [None, 0, 1, 2], [None, 0, 0, 1], [None, None, 0, None], [None, 0, 1, 0],
]


def _mal_instances(cond_on, i):
    """all single malformations applicable at position i of this structure: (cls, arg)."""
    n = len(cond_on)
    out = [("no_distribution", None), ("cond_without_params", None), ("unknown_key", "interval"), ("unknown_key", "fit"), ("unknown_key", "Distribution")]
    if cond_on[i] is not None:
        out += [("unknown_param", "bogus"), ("unknown_param", "Alpha"), ("both_fixed_and_dependent", None),
                ("neither_fixed_nor_dependent", 0), ("neither_fixed_nor_dependent", 1), ("cond_on_self", i)]
        out += [("cond_on_later", j) for j in range(i + 1, n)]
        out += [("cond_on_nonexistent", n), ("cond_on_nonexistent", n + 3), ("cond_on_negative", -1), ("cond_on_negative", -n), ("cond_on_negative", -n - 2)]
    if i == 0:
        out += [("first_conditional", j) for j in range(0, n)] + [("first_conditional", n + 1)]
    return out


def gen_model_single(rng, thorough):
    for cond_on in STRUCTS:
        n = len(cond_on)
        for i in range(n):
            for cls, arg in _mal_instances(cond_on, i):
                carriers = FAMS if (thorough or cls.startswith("cond_on") or cls in ("both_fixed_and_dependent", "neither_fixed_nor_dependent", "unknown_param")) else [FAMS[(i + n) % len(FAMS)], FAMS[(i + 3) % len(FAMS)]]
                for fam in carriers:
                    fams = [FAMS[int(rng.integers(0, len(FAMS)))] for _ in range(n)]
                    fams[i] = fam
                    yield {"kind": "model", "cond_on": cond_on, "families": fams, "mal": [{"cls": cls, "pos": i, "arg": arg}]}


def gen_model_pairs(rng, thorough):
    structs = STRUCTS if thorough else [STRUCTS[1], STRUCTS[3], STRUCTS[8]]
    q = 0
    for cond_on in structs:
        n = len(cond_on)
        inst = [(i, cls, arg) for i in range(n) for cls, arg in _mal_instances(cond_on, i)]
        for (i, ca, aa), (j, cb, ab) in itertools.combinations(inst, 2):
            if i == j and (ca == cb or {ca, cb} & {"first_conditional"} or (ca.startswith("cond_on") and cb.startswith("cond_on"))):
                continue  # the second would overwrite the first
            if i == j and "cond_without_params" in (ca, cb) and {ca, cb} & {"both_fixed_and_dependent", "neither_fixed_nor_dependent", "unknown_param"}:
                continue  # needs the parameters dict that the other one removes
            q += 1
            if not thorough and q % 3:
                continue
            fams = [FAMS[(q + k) % len(FAMS)] for k in range(n)]
            # order: cond_without_params last (it pops 'parameters')
            mal = [{"cls": ca, "pos": i, "arg": aa}, {"cls": cb, "pos": j, "arg": ab}]
            mal.sort(key=lambda m: m["cls"] == "cond_without_params")
            yield {"kind": "model", "cond_on": cond_on, "families": fams, "mal": mal}


def gen_fit(rng, thorough):
    structs = [[None], [None, 0], [None, None], [None, 0, 1], [None, 0, 0]] + ([[None, 0, 1, 2], [None, None, 0, None]] if thorough else [])
    quick_fams = ["weibull", "lognormal", "normal", "ew"]
    first = True
    for cond_on in structs:
        n = len(cond_on)
        fams = [quick_fams[k % 4] for k in range(n)]
        base = {"kind": "fit", "cond_on": cond_on, "families": fams, "check_baseline": first}
        first = False
        # data of the wrong dimension
        for k in sorted({max(1, n - 1), n + 1, n + 2, 2 * n} - {n}):
            for as_list in (False, True):
                yield dict(base, classes=["data_dim"], data_cols=k, data_as_list=as_list, fit=None)
        # fit descriptions of the wrong length
        for L in sorted({0, n - 1, n + 1, n + 3} - {n}):
            if L < 0:
                continue
            yield dict(base, classes=["desc_len"], fit=[{"method": "mle"}] * L)
            yield dict(base, classes=["desc_len"], fit=[None] * L) if L > 0 else dict(base, classes=["desc_len"], fit=[])
        # description without method, at every position
        for i in range(n):
            for bad in ({}, {"weights": None}, {"Method": "mle"}, {"weights": "quadratic"}):
                fit = [None] * n
                fit[i] = bad
                yield dict(base, classes=["no_method"], fit=fit)
        # pairs
        yield dict(base, classes=["data_dim", "no_method"], data_cols=n + 1, fit=[{}] + [None] * (n - 1))
        yield dict(base, classes=["data_dim", "desc_len"], data_cols=n + 1, fit=[None] * (n + 1))
        yield dict(base, classes=["desc_len", "no_method"], fit=[{}] * (n + 1))
        yield dict(base, classes=["data_dim", "unknown_method"], data_cols=n + 1, fit=[{"method": "foo"}] + [None] * (n - 1))
        if n >= 2:
            yield dict(base, classes=["no_method", "unknown_method"], fit=[{"method": "foo"}] + [{}] + [None] * (n - 2))
    # unknown method: every position, every family as carrier at that position
    for cond_on in ([None], [None, 0], [None, 0, 1]) + (([None, None, 0, None],) if thorough else ()):
        n = len(cond_on)
        for i in range(n):
            for fam in FAMS:
                if not thorough and n == 3 and fam not in ("weibull", "ew", "vonmises"):
                    continue
                fams = ["weibull"] + ["lognormal"] * (n - 1)
                fams[i] = fam
                for meth in ("foo", "MLE2", "") if (thorough or (i == 0 and n == 1)) else ("foo",):
                    fit = [None] * n
                    fit[i] = {"method": meth}
                    yield {"kind": "fit", "cond_on": cond_on, "families": fams, "classes": ["unknown_method"], "fit": fit,
                           "check_baseline": bool(i == n - 1 and meth == "foo" and (thorough or n <= 2)), "baseline_fit": None}
    # unknown weight keywords (EW is the family that implements weighted least squares)
    for cond_on in ([None], [None, 0], [None, 0, 1]):
        n = len(cond_on)
        for i in range(n):
            fams = ["ew"] + ["lognormal"] * (n - 1)
            fams[i] = "ew"
            for w in ("foo", "Quadratic2", "", 3.5):
                fit = [None] * n
                if i > 0:
                    fit[0] = {"method": "wlsq", "weights": "quadratic"}
                fit[i] = {"method": "wlsq", "weights": w}
                basefit = copy.deepcopy(fit)
                basefit[i] = {"method": "wlsq", "weights": "linear"}
                yield {"kind": "fit", "cond_on": cond_on, "families": fams, "classes": ["unknown_weights"], "fit": fit,
                       "check_baseline": w == "foo", "baseline_fit": basefit}


def gen_hdc(thorough):
    for n in (1, 2, 3) + ((4,) if thorough else ()):
        good = [[0.1, 4.1]] * n
        first = True
        for L in sorted({0, n - 1, n + 1, n + 2} - {n}):
            if L < 0:
                continue
            yield {"kind": "hdc", "n_dim": n, "classes": ["limits_len"], "limits": [[0.1, 4.1]] * L, "check_baseline": first and n <= 3}
            first = False
        for i in range(n):
            for bad in ([0.1], [0.1, 2.0, 4.1], 4.1, []):
                lim = copy.deepcopy(good)
                lim[i] = bad
                yield {"kind": "hdc", "n_dim": n, "classes": ["limit_tuple"], "limits": lim}
        for L in sorted({0, n - 1, n + 1, 2 * n + 1} - {n}):
            if L < 0 or (L == 0 and False):
                continue
            yield {"kind": "hdc", "n_dim": n, "classes": ["deltas_len"], "deltas": [1.0] * L}
        lim = copy.deepcopy(good)
        lim[0] = [0.1]
        yield {"kind": "hdc", "n_dim": n, "classes": ["limit_tuple", "deltas_len"], "limits": lim, "deltas": [1.0] * (n + 1)}
        yield {"kind": "hdc", "n_dim": n, "classes": ["limits_len", "deltas_len"], "limits": good + [[0.1, 4.1]], "deltas": [1.0] * (n + 1)}


def gen_nonfinite(thorough):
    for n in (1, 2, 3, 4):
        for fn in ("pdf", "cdf"):
            for b in ("nan", "inf", "-inf"):
                for c in range(n):
                    for rows, r, form in ((1, 0, "array"), (3, 2, "array"), (3, 1, "list"), (1, 0, "row")):
                        yield {"kind": "nonfinite", "n_dim": n, "fn": fn, "rows": rows, "bad": [[r, c, b]], "form": form}
            if n >= 2:
                yield {"kind": "nonfinite", "n_dim": n, "fn": fn, "rows": 2, "bad": [[0, 0, "nan"], [1, n - 1, "inf"]], "form": "array"}


def gen_contours():
    for n in (1, 3, 4):
        for c in _CONT2D:
            for ws in (True, False):
                yield {"kind": "contour2d", "n_dim": n, "contour": c, "with_sample": ws}
    for m in ("string", "none", "distribution", "dict", "int", "desc_list", "class"):
        yield {"kind": "iform_type", "model": m}


def gen_slicers():
    for name in ("width", "number", "points"):
        for opt in ("min_points", "foo", "min_n_interval", "n_min_points", "Reference", "value_Range"):
            yield {"kind": "slicer", "slicer": name, "cls": "unknown_option", "option": opt}
        for ref in ("middle", "centre", "", "median", "LEFT ", "__int__", "__none__", "__list__"):
            yield {"kind": "slicer", "slicer": name, "cls": "reference_keyword", "reference": ref}
        if name == "points":
            for ref in ("center", "left", "right"):  # keywords of the other slicers are unknown to this one (callable only)
                yield {"kind": "slicer", "slicer": name, "cls": "reference_keyword", "reference": ref}
    few = [
        ("width", 50.0, {}), ("width", 0.5, {"min_n_points": 150}), ("width", 1.0, {"min_n_intervals": 40, "min_n_points": 1}),
        ("number", 2, {"min_n_points": 150}), ("number", 5, {"min_n_points": 60}), ("number", 10, {"min_n_intervals": 11, "min_n_points": 100}),
        ("points", 150, {}), ("points", 100, {"min_n_intervals": 3}), ("points", 20, {"min_n_intervals": 11}),
    ]
    for name, first, kw in few:
        yield {"kind": "slicer", "slicer": name, "cls": "too_few_intervals", "first": first, "kw": kw}
    for name in ("width", "number"):
        for ref in ("middle", ""):
            yield {"kind": "fit_slicer", "slicer": name, "cls": "reference_keyword", "reference": ref}
    for name in ("width", "number", "points"):
        yield {"kind": "fit_slicer", "slicer": name, "cls": "too_few_intervals"}


def _key(inp):
    return str(sorted((k, str(v)) for k, v in inp.items()))


def run(tier, seed):
    thorough = tier == "thorough"
    rng = np.random.default_rng(seed)
    rec = Recorder(max_samples=10)
    rule = ("distinct = (entry point, structure, carrier families, malformation class(es), position(s), argument); every scenario "
            "is non-trivial (one malformed specification); one evaluation = one 'must raise' predicate")

    def feed(gen):
        first = True
        for inp in gen:
            rec.book(evaluate(inp), inp, key=_key(inp), sample=first)
            first = False

    rec.begin("model descriptions, single malformation", f"{len(STRUCTS)} structures (1-4 dims) x every position x 11 classes (several arguments) x "
              + ("all 8 families" if thorough else "all 8 families for parameter/conditional_on classes, 2 for the rest") + " as carrier; other dims random families", rule)
    feed(gen_model_single(rng, thorough))
    rec.begin("model descriptions, pairs of malformations", ("all" if thorough else "every third of the") + " compatible pairs (same or different position) on "
              + (f"{len(STRUCTS)}" if thorough else "3") + " structures", rule)
    feed(gen_model_pairs(rng, thorough))
    rec.begin("data / fit descriptions", "wrong data dimension (array, list), wrong description length, missing method at every position, unknown method at every "
              "position x every family, unknown weight keywords at every position (EW); pairs", rule)
    feed(gen_fit(rng, thorough))
    rec.begin("HDC limits / deltas", "1-3 (thorough 4) dims: limits of wrong length, malformed tuple at every position, deltas of wrong length; pairs", rule)
    feed(gen_hdc(thorough))
    rec.begin("non-finite evaluation points", "pdf and cdf, 1-4 dims, nan/inf/-inf at every column, array/list/row-vector input", rule)
    feed(gen_nonfinite(thorough))
    rec.begin("2-D-only contours and IFORM model type", "DirectSampling/And/Or with 1-, 3-, 4-D models (with and without sample); IFORMContour with 7 non-models", rule)
    feed(gen_contours())
    rec.begin("slicers", "unknown options (6) and reference keywords (8-11) for the three slicers; too few intervals (9 configurations); the same through model.fit", rule)
    feed(gen_slicers())
    feed({"kind": "refit_too_few", "slicer": nm} for nm in ("width", "number", "points"))
    return jsonable(rec.result())
