"""RTC driver C19 - evaluation is pure and repeatable; predefined models share no state
(bounded stand-in, never counted as proved).

Clauses (properties.jsonl C19):
  pure.model     after every evaluation / contour / design-condition / plot / save call the structural snapshot of the
                 model (every attribute of the model, its distributions, dependence functions, slicers, fitted data)
                 equals the snapshot taken before the history started
  pure.args      every array / list / dict handed to the call is bitwise unchanged afterwards
  repeat         a deterministic evaluation returns the identical result when repeated, and the same result as on a
                 fresh twin model without the history (seeded sampling: same seed -> same sample)
  template       ConditionalDistribution.fit (directly and through GlobalHierarchicalModel.fit) leaves the template
                 distribution's own parameters unchanged
  getters.fresh  objects returned by two calls of a predefined getter share no mutable object (id-graph disjoint)
  getters.indep  fitting a model built from one getter call changes neither a model built from another call nor what
                 a later call of any getter returns

Histories: seeded interleavings of length <= 6 of evaluate / contour / plot / save / fit-another-model operations.
An operation that raises for a reason outside this property is not judged for repeatability, the purity clauses are
still evaluated after it.
"""
import os
import shutil
import tempfile
import time

import numpy as np

import matplotlib

matplotlib.use("Agg")
import matplotlib.pyplot as plt  # noqa: E402

import virocon  # noqa: E402
from virocon import (  # noqa: E402
    AndContour,
    DependenceFunction,
    DirectSamplingContour,
    ExponentiatedWeibullDistribution,
    GeneralizedGammaDistribution,
    GlobalHierarchicalModel,
    HighestDensityContour,
    IFORMContour,
    ISORMContour,
    LogNormalDistribution,
    NormalDistribution,
    OrContour,
    TransformedModel,
    WeibullDistribution,
    calculate_design_conditions,
    plot_2D_contour,
    plot_2D_isodensity,
    plot_dependence_functions,
    plot_histograms_of_interval_distributions,
    plot_marginal_quantiles,
    save_contour_coordinates,
)

from virocon.distributions import ConditionalDistribution, LogNormalNormFitDistribution  # noqa: E402

from ._common_D import (  # noqa: E402
    STRUCTS_2D,
    STRUCTS_3D,
    Tally,
    _const1,
    _lin2,
    build_model,
    jsonable,
    last_line,
    mutable_ids,
    random_spec,
    same_result,
    snapshot,
    snapshot_diff,
)

GETTERS = ("get_DNVGL_Hs_Tz", "get_DNVGL_Hs_U", "get_OMAE2020_Hs_Tz", "get_OMAE2020_V_Hs", "get_Windmeier_EW_Hs_S", "get_Nonzero_EW_Hs_S")
# a model of the getter's structure to simulate fitting data from
GETTER_TRUTH = {
    "get_DNVGL_Hs_Tz": "dnvgl_hs_tz", "get_DNVGL_Hs_U": "dnvgl_hs_u", "get_OMAE2020_Hs_Tz": "omae_hs_tz", "get_OMAE2020_V_Hs": "omae_v_hs",
    "get_Windmeier_EW_Hs_S": "hs_s", "get_Nonzero_EW_Hs_S": "hs_s",
}


def _hs_s_data(n, seed):
    """(hs, steepness) sample of a realistic sea-state model (dataset-C-like parameters)"""
    dd, _, _, _ = virocon.get_Nonzero_EW_Hs_S()
    d = dd[0]["distribution"]
    d.alpha, d.beta, d.delta = 0.36, 0.77, 5.4
    dd[1]["parameters"]["alpha"].parameters = {"a": 0.04, "b": 0.7}
    dd[1]["parameters"]["beta"].parameters = {"a": 1.4, "b": 0.85}
    return GlobalHierarchicalModel(dd).draw_sample(n, random_state=seed)


def _getter_data(name, n, seed):
    s = GETTER_TRUTH[name]
    if s == "hs_s":
        return _hs_s_data(n, seed)
    spec = random_spec(np.random.default_rng(seed), s)
    return build_model(spec)[0].draw_sample(n, random_state=seed)


def _transformed(spec):
    g = getattr(virocon, spec["getter"])
    dd, _, _, tr = g()
    d = dd[0]["distribution"]
    d.alpha, d.beta, d.delta = spec["hs"]
    dd[1]["parameters"]["alpha"].parameters = dict(zip("ab", spec["alpha"]))
    dd[1]["parameters"]["beta"].parameters = dict(zip("ab", spec["beta"]))
    base = GlobalHierarchicalModel(dd)
    return TransformedModel(base, tr["transform"], tr["inverse"], tr["jacobian"], precision_factor=spec.get("pf", 0.2), random_state=spec.get("random_state"))


def _build_subject(sub):
    """the model under observation: ('ghm', spec) | ('fitted', getter, n, seed) | ('transformed', spec)"""
    kind = sub["kind"]
    if kind == "ghm":
        return build_model(sub["spec"])[0]
    if kind == "fitted":
        dd, fd, _ = getattr(virocon, sub["getter"])()[:3]
        m = GlobalHierarchicalModel(dd)
        m.fit(_getter_data(sub["getter"], sub["n"], sub["seed"]), fd)
        return m
    if kind == "transformed":
        return _transformed(sub["spec"])
    raise ValueError(kind)


SKIP = ("_sample",)  # TransformedModel's cache of its own Monte-Carlo sample is not a parameter


# ------------------------------------------------------------------------------- operations
def _points(model, rng, n):
    base = model.model if isinstance(model, TransformedModel) else model
    x = base.draw_sample(max(n, 2), random_state=int(rng.integers(0, 2**31)))[:n]
    if isinstance(model, TransformedModel):
        x = model.inverse(x)
    return np.ascontiguousarray(x, dtype=float)


def _prepare(op, model, scratch):
    """-> (fn(args) -> result, args dict (watched), deterministic?)"""
    rng = np.random.default_rng(op["seed"])
    name = op["op"]
    nd = model.n_dim
    is_t = isinstance(model, TransformedModel)
    ghm = model.model if is_t else model
    if name == "pdf_arr":
        return (lambda a: model.pdf(a["x"])), {"x": _points(model, rng, 7)}, True
    if name == "pdf_list":
        return (lambda a: model.pdf(a["x"])), {"x": _points(model, rng, 3).tolist()}, True
    if name == "pdf_1d":
        return (lambda a: model.pdf(a["x"])), {"x": _points(model, rng, 1)[0].copy()}, True
    if name == "cdf1":
        x = np.quantile(_points(model, rng, 200), 0.4, axis=0)
        return (lambda a: model.cdf(a["x"])), {"x": x}, True
    if name in ("marginal_pdf", "marginal_cdf"):
        dim = int(op.get("dim", 0))
        x = np.sort(_points(model, rng, 3)[:, dim]).copy()
        if ghm.conditional_on[dim] is not None:
            x = x[1:2].copy()  # numerical integration per point
        return (lambda a: getattr(model, name)(a["x"], dim)), {"x": x}, True
    if name == "marginal_icdf":
        dim = int(op.get("dim", 0))
        p = np.sort(rng.uniform(0.05, 0.95, 4))
        det = (not is_t) and ghm.conditional_on[dim] is None
        return (lambda a: model.marginal_icdf(a["p"], dim)), {"p": p}, det
    if name == "cond_cdf":
        dim = int(op.get("dim", nd - 1))
        g = _points(model, rng, 4)
        x = g[:, dim].copy()
        if is_t:
            given = np.delete(g[:1], dim, axis=1)
            given = given[:, 0].copy() if nd == 2 else given
            return (lambda a: model.conditional_cdf(a["x"], dim, a["given"], random_state=op["seed"])), {"x": x[:1].copy(), "given": given}, True
        return (lambda a: model.conditional_cdf(a["x"], dim, a["given"])), {"x": x, "given": g}, True
    if name == "cond_icdf":
        dim = int(op.get("dim", nd - 1))
        g = _points(model, rng, 4)
        p = rng.uniform(0.1, 0.9, 4)
        if is_t:
            given = np.delete(g[:1], dim, axis=1)
            given = given[:, 0].copy() if nd == 2 else given
            return (lambda a: model.conditional_icdf(a["p"], dim, a["given"], precision_factor=0.1, random_state=op["seed"])), {"p": p[:1].copy(), "given": given}, True
        return (lambda a: model.conditional_icdf(a["p"], dim, a["given"])), {"p": p, "given": g}, True
    if name == "cond_sample":
        dim = int(op.get("dim", 1))
        g = _points(model, rng, 1)[0]
        given = float(np.delete(g, dim)[0])
        return (lambda a: model.conditional_sample(2000, dim, a["given"], random_state=op["seed"])), {"given": given}, True
    if name == "ecdf":
        smp = _points(model, rng, 500)
        x = _points(model, rng, 5)
        return (lambda a: model.empirical_cdf(a["x"], sample=a["sample"])), {"x": x, "sample": smp}, True
    if name == "sample_int":
        if is_t:  # TransformedModel.draw_sample has no random_state argument: purity only
            return (lambda a: model.draw_sample(50)), {}, False
        return (lambda a: model.draw_sample(50, random_state=op["seed"])), {}, True
    if name == "sample_gen":
        return (lambda a: ghm.draw_sample(50, random_state=np.random.default_rng(op["seed"]))), {}, True
    if name == "sample_none":
        return (lambda a: model.draw_sample(20)), {}, False
    if name == "dist_eval":
        x = _points(ghm, rng, 5)
        p = rng.uniform(0.05, 0.95, 5)

        def fn(a):
            out = []
            for i, d in enumerate(ghm.distributions):
                c = ghm.conditional_on[i]
                kw = {} if c is None else {"given": a["x"][:, c]}
                out += [d.pdf(a["x"][:, i], **kw), d.cdf(a["x"][:, i], **kw), d.icdf(a["p"], **kw)]
                if c is None:
                    out.append(d.draw_sample(5, random_state=op["seed"]))
                else:
                    out.append(d.draw_sample(1, a["x"][:, c], random_state=op["seed"]))
            return out
        return fn, {"x": x, "p": p}, True
    if name == "iform":
        return (lambda a: IFORMContour(model, a["alpha"], n_points=int(op.get("n_points", 24))).coordinates), {"alpha": float(op.get("alpha", 0.02))}, not is_t
    if name == "isorm":
        return (lambda a: ISORMContour(model, a["alpha"], n_points=20).coordinates), {"alpha": 0.02}, True
    if name == "hdc":
        s = _points(model, rng, 400)
        lo, hi = s.min(axis=0), s.max(axis=0)
        limits = [(float(a - 0.3 * (b - a)) if a < 0 else 0.0, float(b + 0.5 * (b - a))) for a, b in zip(lo, hi)]
        ncell = 30 if nd == 2 else 10
        deltas = [float((b - a) / ncell) for a, b in limits]

        def fn(a):
            c = HighestDensityContour(model, 0.2, limits=a["limits"], deltas=a["deltas"])
            return [np.asarray(v) for v in c.coordinates] if isinstance(c.coordinates, list) else c.coordinates
        return fn, {"limits": limits, "deltas": deltas}, True
    if name in ("ds", "and", "or"):
        smp = _points(model, rng, 3000)
        cls = {"ds": DirectSamplingContour, "and": AndContour, "or": OrContour}[name]
        det = name == "ds" or all(c is None for c in ghm.conditional_on)

        def fn(a):
            co = cls(model, 0.05, deg_step=10, sample=a["sample"]).coordinates
            if co.dtype == object:
                co = np.array([[float(np.asarray(v).reshape(-1)[0]) for v in row] for row in co])
            return co
        return fn, {"sample": smp}, det
    if name == "design":
        c = IFORMContour(model, 0.02, n_points=30)
        lo, hi = c.coordinates[:, 0].min(), c.coordinates[:, 0].max()
        steps = np.sort(rng.uniform(lo - 0.2 * (hi - lo), hi + 0.2 * (hi - lo), 5))
        swap = bool(op.get("swap", False))
        if swap:
            lo, hi = c.coordinates[:, 1].min(), c.coordinates[:, 1].max()
            steps = np.sort(rng.uniform(lo, hi, 5))
        container = steps if op.get("as_array", True) else steps.tolist()
        return (lambda a: calculate_design_conditions(a["contour"], steps=a["steps"], swap_axis=swap)), {"contour": c, "steps": container}, True
    if name == "plot_contour":
        c = IFORMContour(model, 0.02, n_points=30)
        smp = _points(model, rng, 40)
        sem = virocon.plotting.get_default_semantics(2)

        def fn(a):
            try:
                r = plot_2D_contour(a["contour"], sample=a["sample"], design_conditions=True, semantics=a["semantics"], swap_axis=bool(op.get("swap", False)))
                ax = r[0]
                return [ax.get_lines()[0].get_xydata().copy(), np.asarray(r[1])]
            finally:
                plt.close("all")
        return fn, {"contour": c, "sample": smp, "semantics": sem}, True
    if name == "plot_iso":
        smp = _points(model, rng, 60)
        limits = [(0.05, float(1.2 * smp[:, 0].max())), (0.05, float(1.2 * smp[:, 1].max()))]
        levels = [1e-4, 1e-3, 1e-2]
        if op.get("as_array"):
            # the caller's own float array (handed on by reference by numpy.asarray); every other time written from the
            # highest to the lowest density, which matplotlib rejects - the caller's array is to stay as it is either way
            levels = np.array(levels[::-1] if op.get("seed", 0) % 2 == 0 else levels, dtype=float)

        def fn(a):
            try:
                ax = plot_2D_isodensity(model, a["sample"], limits=a["limits"], levels=a["levels"], n_grid_steps=20, swap_axis=bool(op.get("swap", False)))
                return np.asarray(np.ma.getdata(ax.collections[0].get_offsets())).copy()
            finally:
                plt.close("all")
        return fn, {"sample": smp, "limits": limits, "levels": levels}, True
    if name == "plot_dep":
        sem = virocon.plotting.get_default_semantics(nd)
        ren = {"mu": "$\\mu$"}

        def fn(a):
            try:
                axes = plot_dependence_functions(model, semantics=a["semantics"], par_rename=a["par_rename"])
                return [ax.get_lines()[0].get_xydata().copy() for ax in axes]
            finally:
                plt.close("all")
        return fn, {"semantics": sem, "par_rename": ren}, True
    if name == "plot_mq":
        smp = _points(model, rng, 30)
        det = all(c is None for c in ghm.conditional_on)

        def fn(a):
            try:
                axes = plot_marginal_quantiles(model, a["sample"])
                return [ax.get_lines()[0].get_xydata().copy() for ax in axes]
            finally:
                plt.close("all")
        return fn, {"sample": smp}, det
    if name == "plot_hist":
        data = op["_data"]

        def fn(a):
            try:
                figs, axl = plot_histograms_of_interval_distributions(model, a["sample"])
                out = []
                for ax in axl:
                    for x in np.atleast_1d(ax):
                        out += [ln.get_xydata().copy() for ln in x.get_lines()]
                return out
            finally:
                plt.close("all")
        return fn, {"sample": data}, True
    if name == "save":
        c = IFORMContour(ghm, 0.02, n_points=15)
        sem = {"names": ["A b", "C"] + ["D"] * (nd - 2), "symbols": ["a", "c"] + ["d"] * (nd - 2), "units": ["m", "s"] + ["-"] * (nd - 2)}
        path = os.path.join(scratch, f"c_{op['seed']}")

        def fn(a):
            save_contour_coordinates(a["contour"], path, a["semantics"])
            with open(path + ".txt") as f:
                return [f.read()]
        return fn, {"contour": c, "semantics": sem}, True
    if name == "fit_another":
        g = op["getter"]

        def fn(a):
            dd, fd, _ = getattr(virocon, g)()[:3]
            other = GlobalHierarchicalModel(dd)
            other.fit(a["data"], fd)
            return None
        return fn, {"data": _getter_data(g, int(op.get("n", 1500)), op["seed"])}, False
    raise ValueError(name)


def _ops_for(sub, model, rng, tier, slow_ok=False):
    """catalogue of operations applicable to the subject"""
    nd = model.n_dim
    if sub["kind"] == "transformed":
        ops = ["pdf_arr", "sample_none", "sample_int", "ecdf", "cond_sample", "cond_cdf", "cond_icdf", "plot_iso", "fit_another", "sample_gen", "save"]
        if tier != "quick":
            ops += ["iform"]
            if slow_ok:
                ops += ["cdf1"]
        return ops
    ops = ["pdf_arr", "pdf_list", "pdf_1d", "marginal_icdf", "cond_cdf", "cond_icdf", "sample_int", "sample_gen", "sample_none", "dist_eval",
           "iform", "isorm", "hdc", "plot_dep", "plot_mq", "save", "fit_another", "marginal_pdf", "marginal_cdf"]
    if nd == 2:
        ops += ["ds", "and", "or", "design", "plot_contour", "plot_iso"]
        if slow_ok:  # two-fold numerical integration: seconds per call
            ops += ["cdf1"]
    if sub["kind"] == "fitted":
        ops += ["plot_hist"]
    return ops


def _snap_args(args):
    return snapshot(args)


def _run_history(inp, T, scratch):
    sub = inp["subject"]
    struct = sub.get("spec", {}).get("struct") or sub.get("getter") or sub["spec"].get("getter")
    tag = f"{sub['kind']}-{struct}"
    model = _build_subject(sub)
    data = None
    if sub["kind"] == "fitted":
        data = _getter_data(sub["getter"], sub["n"], sub["seed"])
    s0 = snapshot(model, skip_attrs=SKIP)
    twin = None
    for k, op in enumerate(inp["ops"]):
        op = dict(op)
        case = f"history/{tag}/{op['op']}"
        G = "histories"
        if op["op"] == "plot_hist":
            op["_data"] = data
        np.random.seed((op["seed"] + 17) % (2**32))
        try:
            fn, args, det = _prepare(op, model, scratch)
        except Exception:
            T.key(("prepare failed", case, last_line()), nontrivial=False)
            continue
        before = _snap_args(args)
        rec = {k2: v for k2, v in inp.items()}
        rec["failed_at"] = k
        try:
            res, err = fn(args), None
        except Exception:
            res, err = None, last_line()
        d = snapshot_diff(s0, snapshot(model, skip_attrs=SKIP))
        T.check(d is None, G, case, "pure.model: the call leaves the model's parameters unchanged", f"after op #{k} {op['op']}: {d}", rec)
        d = snapshot_diff(before, _snap_args(args))
        T.check(d is None, G, case, "pure.args: the caller's arrays are unchanged", f"after op #{k} {op['op']}: {d}", rec)
        if err is not None:
            T.key(("op raised", case, err), nontrivial=False)
            continue
        if det:
            np.random.seed((op["seed"] + 18) % (2**32))
            try:
                res2 = fn(args)
                T.check(same_result(res, res2), G, case, "repeat: repeating a deterministic evaluation returns identical results", f"op #{k} {op['op']} differs on repetition", rec)
            except Exception:
                T.check(False, G, case, "repeat: repeating a deterministic evaluation returns identical results", f"repetition raised {last_line()}", rec)
            # history independence: same call on a fresh twin without the history
            if twin is None:
                twin = _build_subject(sub)
            fn_t, args_t, _ = _prepare(op, twin, scratch)
            try:
                res3 = fn_t(args_t)
                T.check(same_result(res, res3), G, case, "repeat: the result does not depend on the evaluation history", f"op #{k} {op['op']} differs from a fresh model", rec)
            except Exception:
                T.check(False, G, case, "repeat: the result does not depend on the evaluation history", f"fresh twin raised {last_line()}", rec)
            d = snapshot_diff(s0, snapshot(model, skip_attrs=SKIP))
            T.check(d is None, G, case, "pure.model: the call leaves the model's parameters unchanged", f"after repeating op #{k} {op['op']}: {d}", rec)
    T.key(("history", tag, tuple(o["op"] for o in inp["ops"]), repr(jsonable(sub))[:200]))


# ------------------------------------------------------------------------------- template clause
def _template_dists(kind):
    if kind == "weibull":
        return WeibullDistribution(alpha=2.2, beta=1.3, gamma=0.4, f_gamma=None), {"alpha": 1, "beta": 1, "gamma": 1}
    if kind == "weibull_fixed":
        return WeibullDistribution(alpha=2.2, beta=1.3, f_gamma=0.0), {"alpha": 1, "beta": 1}
    if kind == "lognormal":
        return LogNormalDistribution(mu=0.7, sigma=0.3), {"mu": 1, "sigma": 1}
    if kind == "normal":
        return NormalDistribution(mu=1.5, sigma=0.8), {"mu": 1, "sigma": 1}
    if kind == "lognormalnormfit":
        return LogNormalNormFitDistribution(mu_norm=2.0, sigma_norm=0.5), {"mu_norm": 1, "sigma_norm": 1}
    if kind == "expweibull_fixed":
        return ExponentiatedWeibullDistribution(alpha=1.1, beta=0.9, f_delta=2.0), {"alpha": 1, "beta": 1}
    if kind == "gengamma":
        return GeneralizedGammaDistribution(m=1.5, c=1.2, lambda_=0.8), {"m": 1, "c": 1, "lambda_": 1}
    raise ValueError(kind)


TEMPLATES = ("weibull", "weibull_fixed", "lognormal", "normal", "lognormalnormfit", "expweibull_fixed", "gengamma")


def _check_template(inp, T, case):
    G = "template"
    rng = np.random.default_rng(inp["seed"])
    dist, pars = _template_dists(inp["dist"])
    deps = {p: DependenceFunction(_lin2 if i == 0 else _const1) for i, p in enumerate(pars)}
    n_int = int(inp["n_intervals"])
    cond_vals = np.arange(n_int) + 0.5
    # data from the template's own family with parameters varying over the intervals
    data = []
    for c in cond_vals:
        if inp["dist"].startswith("weibull"):
            d = WeibullDistribution(1.5 + 0.3 * c, 1.4, 0.0).draw_sample(int(inp["n"]), random_state=rng)
        elif inp["dist"] == "normal":
            d = NormalDistribution(1.0 + 0.5 * c, 0.7).draw_sample(int(inp["n"]), random_state=rng)
        elif inp["dist"] == "gengamma":
            d = GeneralizedGammaDistribution(1.5, 1.2, 0.8).draw_sample(int(inp["n"]), random_state=rng) * (1 + 0.1 * c)
        elif inp["dist"] == "expweibull_fixed":
            d = ExponentiatedWeibullDistribution(1.0 + 0.2 * c, 1.0, 2.0).draw_sample(int(inp["n"]), random_state=rng)
        else:
            d = LogNormalDistribution(0.5 + 0.2 * c, 0.3).draw_sample(int(inp["n"]), random_state=rng)
        data.append(np.asarray(d, dtype=float))
    bounds = [(c - 0.5, c + 0.5) for c in cond_vals]
    if inp["via"] == "direct":
        cd = ConditionalDistribution(dist, deps)
        s0 = snapshot(dist)
        d0 = [x.copy() for x in data]
        try:
            cd.fit(data, cond_vals, bounds, inp["method"], None)
        except Exception:
            T.key(("template fit raised", case, last_line()), nontrivial=False)
            d = snapshot_diff(s0, snapshot(dist))
            T.check(d is None, G, case, "template: fitting a conditional distribution does not alter its template's own parameters", f"(fit raised) {d}", inp)
            return
        d = snapshot_diff(s0, snapshot(dist))
        T.check(d is None, G, case, "template: fitting a conditional distribution does not alter its template's own parameters", d, inp)
        T.check(cd.distribution is dist and all(x is not dist for x in cd.distributions_per_interval), G, case,
                "template: every interval is fitted on a copy of the template", "an interval distribution IS the template object", inp)
        T.check(all(np.array_equal(a, b) for a, b in zip(d0, data)), G, case, "pure.args: the interval data are unchanged", "data modified", inp)
        fitted = [p for p in cd.parameters_per_interval]
        T.check(len(fitted) == n_int, G, case, "template: one fitted copy per interval", f"{len(fitted)} for {n_int}", inp)
    else:  # through GlobalHierarchicalModel.fit
        x0 = np.concatenate([np.full(len(d), c) + rng.uniform(-0.45, 0.45, len(d)) for c, d in zip(cond_vals, data)])
        full = np.c_[x0, np.concatenate(data)]
        d0 = WeibullDistribution(2.0, 1.5, 0.0)
        dd = [{"distribution": d0, "intervals": virocon.WidthOfIntervalSlicer(1.0, min_n_points=10)},
              {"distribution": dist, "conditional_on": 0, "parameters": deps}]
        m = GlobalHierarchicalModel(dd)
        s0 = snapshot(dist)
        fcopy = full.copy()
        try:
            m.fit(full, [{"method": "mle"}, {"method": inp["method"]}])
        except Exception:
            T.key(("template fit raised", case, last_line()), nontrivial=False)
            d = snapshot_diff(s0, snapshot(dist))
            T.check(d is None, G, case, "template: fitting a conditional distribution does not alter its template's own parameters", f"(fit raised) {d}", inp)
            return
        d = snapshot_diff(s0, snapshot(dist))
        T.check(d is None, G, case, "template: fitting a conditional distribution does not alter its template's own parameters", d, inp)
        T.check(np.array_equal(fcopy, full), G, case, "pure.args: the data handed to fit are unchanged", "data modified", inp)


# ------------------------------------------------------------------------------- getters clause
def _check_getters(inp, T, case):
    G = "getters"
    order = inp["order"]
    n_calls = int(inp.get("n_calls", 2))
    if inp["mode"] == "fresh":
        for g in order:
            rets = [getattr(virocon, g)() for _ in range(n_calls)]
            ids = [{k for k, v in mutable_ids(r).items() if v is not None} for r in rets]
            kinds = [mutable_ids(r) for r in rets]
            for i in range(n_calls):
                for j in range(i + 1, n_calls):
                    shared = ids[i] & ids[j]
                    T.check(not shared, G, case, "getters.fresh: separate calls share no mutable object", f"{g}: calls {i} and {j} share {sorted({kinds[i][s] for s in shared})}", inp)
            sn = [snapshot(r) for r in rets]
            T.check(all(s == sn[0] for s in sn[1:]), G, case, "getters.fresh: every call returns the same description", f"{g}: {snapshot_diff(sn[0], sn[-1])}", inp)
        return
    # mode == "indep": build A from one call, fit B built from another call (same or other getter), A unchanged, later calls unchanged
    pristine = {g: snapshot(getattr(virocon, g)()) for g in GETTERS}
    ga, gb = order[0], order[1]
    ret_a = getattr(virocon, ga)()
    A = GlobalHierarchicalModel(ret_a[0])
    sA, sRetA = snapshot(A), snapshot(ret_a)
    use_before = None
    x = _getter_data(ga, 20, inp["seed"])
    try:
        use_before = A.pdf(x)
    except Exception:
        pass
    ret_b = getattr(virocon, gb)()
    B = GlobalHierarchicalModel(ret_b[0])
    try:
        B.fit(_getter_data(gb, int(inp["n"]), inp["seed"]), ret_b[1])
    except Exception:
        T.key(("getter fit raised", case, last_line()), nontrivial=False)
    d = snapshot_diff(sA, snapshot(A))
    T.check(d is None, G, case, "getters.indep: fitting one model never changes another built from a fresh description", f"A={ga}, fitted B={gb}: {d}", inp)
    d = snapshot_diff(sRetA, snapshot(ret_a))
    T.check(d is None, G, case, "getters.indep: the descriptions of the other call are unchanged", f"A={ga}, fitted B={gb}: {d}", inp)
    if use_before is not None:
        T.check(same_result(use_before, A.pdf(x)), G, case, "repeat: A evaluates identically before and after fitting B", f"A={ga}, B={gb}: pdf changed", inp)
    for g in GETTERS:
        d = snapshot_diff(pristine[g], snapshot(getattr(virocon, g)()))
        T.check(d is None, G, case, "getters.indep: a later call returns the pristine description", f"{g} after fitting {gb}: {d}", inp)
    shared = {k for k, v in mutable_ids(ret_a).items() if v is not None} & {k for k, v in mutable_ids(B).items() if v is not None}
    T.check(not shared, G, case, "getters.fresh: separate calls share no mutable object", f"A={ga} shares objects with fitted B={gb}", inp)


def _check(inp, T=None, case=None, scratch=None):
    T = T or Tally()
    own = None
    if scratch is None:
        own = scratch = tempfile.mkdtemp(prefix="rtc_C19_", dir=os.environ.get("VF_SCRATCH") or None)
    try:
        if inp["type"] == "history":
            _run_history(inp, T, scratch)
        elif inp["type"] == "template":
            _check_template(inp, T, case or inp.get("case", "replay"))
            T.key(("template", inp["dist"], inp["via"], inp["method"], inp["seed"]))
        elif inp["type"] == "getters":
            _check_getters(inp, T, case or inp.get("case", "replay"))
            T.key(("getters", inp["mode"], tuple(inp["order"]), inp.get("seed")))
        else:
            raise ValueError(inp["type"])
    finally:
        plt.close("all")
        if own:
            shutil.rmtree(own, ignore_errors=True)
    return T


# ------------------------------------------------------------------------------- scenario generation
T_SPECS = [
    {"getter": "get_Windmeier_EW_Hs_S", "hs": [0.3558, 0.7722, 5.3729], "alpha": [0.04245, 0.98826], "beta": [1.38506, 0.8558], "pf": 0.2, "random_state": 42},
    {"getter": "get_Nonzero_EW_Hs_S", "hs": [0.2475, 0.68508, 6.3543], "alpha": [0.11244, 0.10758], "beta": [0.95997, 0.57502], "pf": 0.1, "random_state": None},
]


def _scenarios(rng, tier):
    scen = []
    n_hist = {"quick": 1, "thorough": 4}[tier]
    subjects = []
    for s in STRUCTS_2D + STRUCTS_3D:
        for _ in range(n_hist):
            subjects.append({"kind": "ghm", "spec": random_spec(rng, s)})
    for g in ("get_DNVGL_Hs_Tz", "get_OMAE2020_Hs_Tz") if tier == "quick" else GETTERS[:4]:
        for _ in range(n_hist):
            subjects.append({"kind": "fitted", "getter": g, "n": int(rng.integers(1500, 3000)), "seed": int(rng.integers(0, 2**31))})
    for ts in T_SPECS:
        for _ in range(n_hist):
            subjects.append({"kind": "transformed", "spec": ts})
    n_slow = 0
    for sub in subjects:
        model = _build_subject(sub) if sub["kind"] != "fitted" else None
        # numerical double integrals (cdf, marginal_cdf of a conditional dimension) cost seconds per call: only for a few subjects
        slow_ok = (sub["kind"] == "ghm" and sub["spec"]["struct"] in (("omae_hs_tz",) if tier == "quick" else ("omae_hs_tz", "dnvgl_hs_tz", "indep2")) and n_slow < (1 if tier == "quick" else 4)) \
            or (sub["kind"] == "transformed" and tier != "quick" and n_slow < 6)
        n_slow += int(slow_ok)
        cat = _ops_for(sub, model if model is not None else _Dummy(2), rng, tier, slow_ok)
        # every catalogue entry appears in some history of the subject: deal the shuffled catalogue into histories of <= 6
        perm = [cat[i] for i in rng.permutation(len(cat))]
        nd = 2 if model is None else model.n_dim
        for h in range(0, len(perm), 5):
            chunk = perm[h:h + 5]
            ops = []
            for nm in chunk:
                op = {"op": nm, "seed": int(rng.integers(0, 2**31))}
                if nm in ("marginal_pdf", "marginal_cdf"):
                    # numerical integration of conditional dimensions is slow: those only in 2-D
                    cond = [None] * nd if model is None else (model.conditional_on if sub["kind"] != "transformed" else [None, 0])
                    dims = [i for i in range(nd) if cond[i] is None or (nd == 2 and (nm == "marginal_pdf" or slow_ok))]
                    if sub["kind"] == "fitted":
                        dims = [0, 1] if nm == "marginal_pdf" else [0]
                    op["dim"] = int(dims[int(rng.integers(0, len(dims)))])
                elif nm == "marginal_icdf":
                    op["dim"] = int(rng.integers(0, nd))
                elif nm in ("cond_cdf", "cond_icdf"):
                    op["dim"] = int(rng.integers(1, nd)) if sub["kind"] != "transformed" else int(rng.integers(0, 2))
                elif nm == "cond_sample":
                    op["dim"] = int(rng.integers(0, 2))
                elif nm in ("design", "plot_contour", "plot_iso"):
                    op["swap"] = bool(rng.integers(0, 2))
                    op["as_array"] = bool(rng.integers(0, 2))
                elif nm == "fit_another":
                    op["getter"] = GETTERS[int(rng.integers(0, 4))] if tier == "quick" else GETTERS[int(rng.integers(0, 6))]
                    op["n"] = 1200
                ops.append(op)
            # interleave one fit-another into every history that has room (the aliasing pattern "fit B between two uses of A")
            if len(ops) < 6 and all(o["op"] != "fit_another" for o in ops):
                pos = int(rng.integers(1, len(ops) + 1)) if len(ops) > 1 else 1
                ops.insert(pos, {"op": "fit_another", "getter": GETTERS[int(rng.integers(0, 4))], "n": 1200, "seed": int(rng.integers(0, 2**31))})
                if pos < len(ops) - 1 or True:
                    # re-use of A after the fit: repeat the first operation at the end when there is room
                    if len(ops) < 6:
                        ops.append(dict(ops[0]))
            scen.append(("history", {"type": "history", "subject": sub, "ops": ops}))
    # template clause
    for dist in TEMPLATES:
        for via in ("direct", "model"):
            for method in (("mle", "lsq") if dist == "expweibull_fixed" else ("mle",)):
                for _ in range(1 if tier == "quick" else 4):
                    scen.append((f"template/{dist}/{via}/{method}", {"type": "template", "dist": dist, "via": via, "method": method, "n": int(rng.integers(80, 200)),
                                                                   "n_intervals": int(rng.integers(3, 7)), "seed": int(rng.integers(0, 2**31))}))
    # getters
    for _ in range(1 if tier == "quick" else 4):
        scen.append(("getters/fresh", {"type": "getters", "mode": "fresh", "order": [GETTERS[i] for i in rng.permutation(6)], "n_calls": int(rng.integers(2, 5))}))
    pairs = [(a, b) for a in GETTERS for b in GETTERS]
    if tier == "quick":
        pairs = [pairs[i] for i in rng.permutation(len(pairs))[:8]] + [(g, g) for g in GETTERS[:2]]
    for a, b in pairs:
        scen.append((f"getters/indep/A={a}/B={b}", {"type": "getters", "mode": "indep", "order": [a, b], "n": 1500, "seed": int(rng.integers(0, 2**31))}))
    return scen


class _Dummy:
    def __init__(self, n_dim):
        self.n_dim = n_dim
        self.conditional_on = [None] * n_dim


def run(tier, seed):
    t0 = time.time()
    rng = np.random.default_rng(seed)
    T = Tally()
    scratch = tempfile.mkdtemp(prefix="rtc_C19_", dir=os.environ.get("VF_SCRATCH") or None)
    try:
        scen = _scenarios(rng, tier)
        for case, inp in scen:
            _check(dict(inp), T, case, scratch)
            if len(T.samples) < 6 and (not T.samples or T.samples[-1]["case"].split("/")[0] != case.split("/")[0] or len(T.samples) < 3):
                T.samples.append({"case": case, "inputs": jsonable(inp)})
    finally:
        shutil.rmtree(scratch, ignore_errors=True)
        plt.close("all")
    g = T.groups
    n_hist = sum(1 for c, _ in scen if c == "history")
    n_ops = sum(len(i["ops"]) for c, i in scen if c == "history")
    return {
        "evaluations": T.evaluations,
        "distinct_nontrivial": len(T.keys),
        "failures": jsonable(T.failures),
        "bounded": [
            {"what": "seeded interleavings of evaluate / contour / design-condition / plot / save / fit-another-model operations on 2-D and 3-D models "
                     "(5 two-dimensional and 4 three-dimensional dependence structures, fitted predefined models, two transformed models); snapshots of the model and of every argument around every call",
             "bound": f"{n_hist} histories of length <= 6, {n_ops} operations from a catalogue of 27 entry points; every catalogue entry applicable to a subject occurs in one of its histories",
             "evaluations": g.get("histories", 0),
             "rule": "distinct = (subject, sequence of operations); trivial = operation that cannot be prepared or raises for a reason outside this property (purity still checked after it)"},
            {"what": "ConditionalDistribution.fit directly and through GlobalHierarchicalModel.fit for 7 template distributions", "bound": f"{sum(1 for c, _ in scen if c.startswith('template'))} fits, 3..6 intervals of 80..200 points",
             "evaluations": g.get("template", 0), "rule": "distinct = (template, route, method, seed); trivial = fit raises (template still compared)"},
            {"what": "all six predefined getters: id-graphs of repeated calls, fit of a model from one call between two uses of a model from another call, later calls compared with the pristine description",
             "bound": f"{sum(1 for c, _ in scen if c.startswith('getters'))} scenarios (2..4 repeated calls; ordered getter pairs A, B)", "evaluations": g.get("getters", 0),
             "rule": "distinct = (mode, getter order, seed); functions are traversed through closures and functools.partial but are not themselves counted as shared state"},
        ],
        "samples": T.samples,
        "trivial": T.trivial,
        "seconds": round(time.time() - t0, 2),
    }


def replay(doc):
    T = _check(dict(doc["inputs"]), Tally(), doc.get("case", "replay"))
    want = doc.get("clause")
    fails = [f for f in T.failures if want is None or f["clause"].split(":")[0] == want.split(":")[0]]
    return len(fails) == 0
