"""RTC driver C20 - exported, plotted and loaded data are exactly the computed / stored values
(bounded stand-in, never counted as proved).

Clauses (properties.jsonl C20), each checked on the real functions with the Agg backend:
  save.path     '.txt' is appended iff the path has no extension, nothing else is written
  save.header   exactly one header line ';'.join('name (unit)') built from the semantics
  save.rows     one row per contour point, in order, ';'-separated, every field written with 6 decimals
  save.values   parsed values equal the coordinates to the written 6 decimals (|diff| <= 0.5e-6)
  plot2d.line   plot_2D_contour draws ONE polyline through exactly the contour's points in order, first point
                repeated at the end, axes exchanged iff swap_axis (bitwise equal data)
  plot2d.sample / plot2d.dc   sample and design conditions scattered as supplied (dc=True: as computed by
                calculate_design_conditions(contour, swap_axis=swap_axis)); nothing scattered otherwise
  plot2d.labels axis labels built from the semantics of the plotted variables
  dep.*         plot_dependence_functions: curve = dep_func(x) unmodified, scatter = per-interval estimates
  iso.*         plot_2D_isodensity: the Z handed to Axes.contour is model.pdf on the plotted grid node by node
                (axes exchanged iff swap_axis), the sample is scattered as supplied
  hist.*        plot_histograms_of_interval_distributions: curves = the (interval) distributions' own pdf values,
                histogram of exactly the (interval) data
  mq.*          plot_marginal_quantiles: abscissae = the model's marginal_icdf values as returned, ordinates = the
                ordered sample
  read.*        read_ec_benchmark_dataset returns every data row, in order, with its time stamp as index

A design_conditions=True scenario whose reference call calculate_design_conditions raises is not evaluated here
(that is C17's clause); it is counted as trivial.
"""
import datetime as _dt
import os
import re
import shutil
import tempfile
import time

import numpy as np

import matplotlib

matplotlib.use("Agg")
import matplotlib.pyplot as plt  # noqa: E402
import pandas as pd  # noqa: E402

import virocon  # noqa: E402
from virocon import (  # noqa: E402
    AndContour,
    DirectSamplingContour,
    GlobalHierarchicalModel,
    HighestDensityContour,
    IFORMContour,
    ISORMContour,
    OrContour,
    calculate_design_conditions,
    plot_2D_contour,
    plot_2D_isodensity,
    plot_dependence_functions,
    plot_histograms_of_interval_distributions,
    plot_marginal_quantiles,
    read_ec_benchmark_dataset,
    save_contour_coordinates,
)

from ._common_D import Tally, build_model, jsonable, last_line, random_spec

CLASSES_2D = ("IFORM", "ISORM", "HDC", "DS", "And", "Or")
CLASSES_3D = ("IFORM", "ISORM", "HDC")


# ------------------------------------------------------------------------------- builders
def _make_contour(rec):
    model, sem = build_model(rec["model"])
    cls = rec["cls"]
    if cls == "IFORM":
        c = IFORMContour(model, rec["alpha"], n_points=rec["n_points"])
    elif cls == "ISORM":
        c = ISORMContour(model, rec["alpha"], n_points=rec["n_points"])
    elif cls == "HDC":
        s = model.draw_sample(2000, random_state=rec["sample_seed"])
        lo, hi = s.min(axis=0), s.max(axis=0)
        limits = [(float(max(0.0, a - 0.1 * (b - a))) if a >= 0 else float(a - 0.3 * (b - a)), float(b + 0.5 * (b - a))) for a, b in zip(lo, hi)]
        deltas = [float((b - a) / rec["n_cells"]) for a, b in limits]
        c = HighestDensityContour(model, rec["alpha"], limits=limits, deltas=deltas)
    else:
        s = model.draw_sample(rec["n"], random_state=rec["sample_seed"])
        if cls == "DS":
            c = DirectSamplingContour(model, rec["alpha"], deg_step=rec["deg_step"], sample=s)
        elif cls == "And":
            c = AndContour(model, rec["alpha"], deg_step=rec["deg_step"], sample=s)
        elif cls == "Or":
            c = OrContour(model, rec["alpha"], deg_step=rec["deg_step"], sample=s)
        else:
            raise ValueError(cls)
    return c, model, sem


def _random_contour_rec(rng, cls, n_dim):
    if n_dim == 2:
        structs = ["dnvgl_hs_tz", "omae_hs_tz", "dnvgl_hs_u", "omae_v_hs", "indep2"]
    else:
        structs = ["chain3", "fork3", "mixed3", "indep3"]
    rec = {"cls": cls, "model": random_spec(rng, structs[int(rng.integers(0, len(structs)))]), "alpha": float(10 ** rng.uniform(-2.5, -1))}
    if cls in ("IFORM", "ISORM"):
        rec["n_points"] = int(rng.integers(5, 70))
    elif cls == "HDC":
        rec.update(sample_seed=int(rng.integers(0, 2**31)), n_cells=int(rng.integers(25, 45)) if n_dim == 2 else int(rng.integers(10, 16)), alpha=float(rng.uniform(0.05, 0.3)))
    else:
        rec.update(sample_seed=int(rng.integers(0, 2**31)), n=int(rng.integers(2000, 8000)), deg_step=[5, 9, 10, 15][int(rng.integers(0, 4))], alpha=float(rng.uniform(0.02, 0.1)))
    return rec


def _coords_as_float(coords):
    """contour points as a float array (OrContour stores 1-element arrays inside an object array)"""
    a = np.asarray(coords)
    if a.dtype == object:
        return np.array([[float(np.asarray(v).reshape(-1)[0]) for v in row] for row in a], dtype=float)
    return np.asarray(a, dtype=float)


_ALPHABET = list("abcXYZ 019_-+*/\\^$%#&@!?.,:;()[]{}<>|~'\"=`\t") + ["ä", "ß", "°", "µ", "μ", "Δ", "σ", "²", "é", "Ж", "波", "→"]


def _random_semantics(rng, n_dim):
    def s():
        return "".join(_ALPHABET[int(i)] for i in rng.integers(0, len(_ALPHABET), int(rng.integers(0, 16))))
    return {"names": [s() for _ in range(n_dim)], "symbols": [s() for _ in range(n_dim)], "units": [s() for _ in range(n_dim)]}


PATH_KINDS = ("noext", "txt", "csv", "dat", "dotdir-noext", "dotdir-ext", "hidden", "multidot", "upper")


def _path_for(kind, base):
    """(path handed to the function, path expected on disk)"""
    if kind == "noext":
        p = os.path.join(base, "contour_coordinates")
        return p, p + ".txt"
    if kind in ("txt", "csv", "dat"):
        p = os.path.join(base, "contour." + kind)
        return p, p
    if kind == "dotdir-noext":
        d = os.path.join(base, "run.v1")
        os.makedirs(d, exist_ok=True)
        p = os.path.join(d, "contour")
        return p, p + ".txt"
    if kind == "dotdir-ext":
        d = os.path.join(base, "run.v2")
        os.makedirs(d, exist_ok=True)
        p = os.path.join(d, "contour.out")
        return p, p
    if kind == "hidden":
        p = os.path.join(base, ".contour")
        return p, p + ".txt"
    if kind == "multidot":
        p = os.path.join(base, "contour.2024.txt")
        return p, p
    if kind == "upper":
        p = os.path.join(base, "CONTOUR.TXT")
        return p, p
    raise ValueError(kind)


# ------------------------------------------------------------------------------- checks
_FIELD = re.compile(r"^-?\d+\.\d{6}$")


def _check_save(inp, T, case, scratch):
    G = "save_contour_coordinates"
    contour, model, _ = _make_contour(inp["contour"])
    coords = _coords_as_float(contour.coordinates)
    n, n_dim = coords.shape
    sem = inp.get("semantics")
    base = tempfile.mkdtemp(prefix="save_", dir=scratch)
    try:
        path, expected = _path_for(inp["path_kind"], base)
        sem_arg = None if sem is None else {k: list(v) for k, v in sem.items()}
        try:
            save_contour_coordinates(contour, path, sem_arg) if sem is not None else save_contour_coordinates(contour, path)
        except Exception:
            T.check(False, G, case, "save.call: the coordinates are written", f"raised {last_line()}", inp)
            return
        files = sorted(os.path.join(dp, f) for dp, _, fs in os.walk(base) for f in fs)
        T.check(files == [expected], G, case, "save.path: '.txt' appended iff the path has no extension",
                f"files written {[os.path.relpath(f, base) for f in files]}, expected {os.path.relpath(expected, base)}", inp)
        if not os.path.exists(expected):
            return
        with open(expected, newline="") as f:
            text = f.read()
        use = sem if sem is not None else {"names": [f"Variable {d + 1}" for d in range(n_dim)], "units": ["arb. unit"] * n_dim}
        header = ";".join(f"{use['names'][d]} ({use['units'][d]})" for d in range(n_dim))
        T.check(text.startswith(header + "\n"), G, case, "save.header: one header line built from the semantics",
                f"file starts with {text[:len(header) + 20]!r}, expected header {header!r}", inp)
        body = text[len(header) + 1:] if text.startswith(header + "\n") else text.split("\n", 1)[-1]
        lines = body.split("\n")
        ok_rows = len(lines) == n + 1 and lines[-1] == ""
        T.check(ok_rows, G, case, "save.rows: one row per contour point", f"{len(lines) - 1} rows after the header for {n} contour points", inp)
        if not ok_rows:
            return
        bad_fmt, bad_val = None, None
        for i in range(n):
            fields = lines[i].split(";")
            if len(fields) != n_dim or not all(_FIELD.match(x) for x in fields):
                bad_fmt = bad_fmt or (i, lines[i])
                continue
            vals = np.array([float(x) for x in fields])
            if not np.all(np.abs(vals - coords[i]) <= 0.5e-6 * (1 + 1e-6) + 4e-16 * np.abs(coords[i])):
                bad_val = bad_val or (i, lines[i], coords[i].tolist())
        T.ok(G, 2 * n - 2)  # the two checks below stand for one evaluation per row each
        T.check(bad_fmt is None, G, case, "save.rows: every row has n_dim ';'-separated fields with 6 decimals, in order", f"row {bad_fmt}", inp)
        T.check(bad_val is None, G, case, "save.values: parsed values equal the coordinates to the written 6 decimals", f"row {bad_val}", inp)
    finally:
        shutil.rmtree(base, ignore_errors=True)


def _label(sem, idx):
    return f"{sem['names'][idx]}," + r" $\it{" + f"{sem['symbols'][idx]}" + r"}$" + f" ({sem['units'][idx]})"


def _offsets(coll):
    return np.asarray(np.ma.getdata(coll.get_offsets()), dtype=float).reshape(-1, 2)


def _check_plot2d(inp, T, case):
    G = "plot_2D_contour"
    contour, model, sem_model = _make_contour(inp["contour"])
    coords = _coords_as_float(contour.coordinates)
    swap = bool(inp["swap"])
    xi, yi = (1, 0) if swap else (0, 1)
    kw = {"swap_axis": swap}
    sem = sem_model if inp.get("semantics") == "model" else virocon.plotting.get_default_semantics(2)
    if inp.get("semantics") == "model":
        kw["semantics"] = sem_model
    sample = None
    if inp["sample"] != "none":
        sample = model.draw_sample(int(inp.get("n_sample", 40)), random_state=int(inp.get("sample_seed", 1)))
        arg = sample
        if inp["sample"] == "list":
            arg = sample.tolist()
        elif inp["sample"] == "dataframe":
            arg = pd.DataFrame(sample, columns=["a", "b"])
        kw["sample"] = arg
    expected_dc = None
    if inp["dc"] == "true":
        try:
            expected_dc = np.asarray(calculate_design_conditions(contour, swap_axis=swap), dtype=float).reshape(-1, 2)
        except Exception:
            T.key(("plot2d", "dc=true not computable (C17)", case), nontrivial=False)
            return "trivial"
        kw["design_conditions"] = True
    elif inp["dc"] == "array":
        lo, hi = coords.min(axis=0), coords.max(axis=0)
        fr = np.array([[0.2, 0.7], [0.5, 0.9], [0.8, 0.6]])
        expected_dc = lo + fr * (hi - lo)
        kw["design_conditions"] = expected_dc.copy()
    fig = None
    try:
        if inp.get("own_ax"):
            fig, ax0 = plt.subplots()
            plt.subplots()  # make ANOTHER axes pyplot's current one: everything has to be drawn on the axes that was passed
            kw["ax"] = ax0
        try:
            res = plot_2D_contour(contour, **kw)
        except Exception:
            T.check(False, G, case, "plot2d.call: the contour is drawn", f"raised {last_line()}", inp)
            return
        ax = res[0] if isinstance(res, tuple) else res
        fig = ax.figure
        if inp.get("own_ax"):
            T.check(ax is kw["ax"], G, case, "plot2d.call: draws into the supplied axes", "other axes returned", inp)
        lines = ax.get_lines()
        ex = np.append(coords[:, xi], coords[0, xi])
        ey = np.append(coords[:, yi], coords[0, yi])
        ok = len(lines) == 1
        detail = f"{len(lines)} lines drawn"
        if ok:
            gx, gy = np.asarray(lines[0].get_xdata(), dtype=float), np.asarray(lines[0].get_ydata(), dtype=float)
            ok = gx.shape == ex.shape and np.array_equal(gx, ex) and np.array_equal(gy, ey)
            detail = f"line has {len(gx)} nodes, first {gx[:2].tolist()},{gy[:2].tolist()} last {gx[-1:].tolist()},{gy[-1:].tolist()}; " \
                     f"expected {len(ex)} nodes, first {ex[:2].tolist()},{ey[:2].tolist()} last {ex[-1:].tolist()},{ey[-1:].tolist()}"
        T.check(ok, G, case, "plot2d.line: closed polyline through exactly the contour's points in order, axes exchanged iff swap_axis", detail, inp)
        colls = [c for c in ax.collections if type(c).__name__ == "PathCollection"]
        expected = []
        if expected_dc is not None:
            expected.append(("dc", expected_dc))
        if sample is not None:
            expected.append(("sample", sample[:, [xi, yi]]))
        T.check(len(colls) == len(expected), G, case, "plot2d.scatter: sample and design conditions drawn iff supplied",
                f"{len(colls)} scatter collections, expected {[e[0] for e in expected]}", inp)
        if len(colls) == len(expected):
            for coll, (name, arr) in zip(colls, expected):
                got = _offsets(coll)
                T.check(got.shape == arr.shape and np.array_equal(got, arr), G, case,
                        f"plot2d.{name}: {'design conditions' if name == 'dc' else 'sample'} scattered as supplied / computed",
                        f"scattered {got[:3].tolist()}.. expected {arr[:3].tolist()}..", inp)
        T.check(ax.get_xlabel() == _label(sem, xi) and ax.get_ylabel() == _label(sem, yi), G, case,
                "plot2d.labels: axis labels of the plotted variables", f"labels {ax.get_xlabel()!r}, {ax.get_ylabel()!r}", inp)
    finally:
        plt.close("all")


def _fit_like(spec, n, seed):
    """a fresh model of the predefined structure fitted to a sample drawn from the spec'd model"""
    truth, sem = build_model(spec)
    data = truth.draw_sample(n, random_state=seed)
    s = spec["struct"]
    getters = {"dnvgl_hs_tz": virocon.get_DNVGL_Hs_Tz, "omae_hs_tz": virocon.get_OMAE2020_Hs_Tz, "dnvgl_hs_u": virocon.get_DNVGL_Hs_U}
    if s in getters:
        dd, fd, sem = getters[s]()
        model = GlobalHierarchicalModel(dd)
    else:
        model, sem = build_model(spec)  # own structure: fit starts from the true parameters
        fd = None
    model.fit(data, fd)
    return model, sem, data


def _check_depfun(inp, T, case):
    G = "plot_dependence_functions"
    try:
        if inp["fitted"]:
            model, sem, _ = _fit_like(inp["model"], inp["n"], inp["fit_seed"])
        else:
            model, sem = build_model(inp["model"])
    except Exception:
        T.key(("depfun", "fit failed", case), nontrivial=False)
        return "trivial"
    kw = {}
    if inp.get("semantics"):
        kw["semantics"] = sem
    rename = inp.get("par_rename") or {}
    if rename:
        kw["par_rename"] = dict(rename)
    try:
        try:
            axes = plot_dependence_functions(model, **kw)
        except Exception:
            T.check(False, G, case, "dep.call: the dependence functions are drawn", f"raised {last_line()}", inp)
            return
        k = 0
        for dim in range(model.n_dim):
            if model.conditional_on[dim] is None:
                continue
            dist = model.distributions[dim]
            cv = dist.conditioning_values
            x = np.linspace(0, max(cv)) if cv is not None else np.linspace(0, 10)
            for par_name, dep in dist.conditional_parameters.items():
                ax = axes[k]
                k += 1
                lines = ax.get_lines()
                y = np.asarray(dep(x), dtype=float)
                ok = len(lines) == 1 and np.array_equal(np.asarray(lines[0].get_xdata(), float), x) and np.array_equal(np.asarray(lines[0].get_ydata(), float), y)
                T.check(ok, G, case, "dep.curve: the curve is the dependence function's own values", f"dim {dim} parameter {par_name}: {len(lines)} lines, "
                        f"y[:3]={np.asarray(lines[0].get_ydata())[:3].tolist() if lines else None} expected {y[:3].tolist()}", inp)
                colls = [c for c in ax.collections if type(c).__name__ == "PathCollection"]
                if cv is None:
                    T.check(len(colls) == 0, G, case, "dep.estimates: no per-interval estimates for an unfitted model", f"{len(colls)} scatter collections", inp)
                else:
                    est = np.c_[np.asarray(cv, float), [p[par_name] for p in dist.parameters_per_interval]]
                    ok = len(colls) == 1 and np.array_equal(_offsets(colls[0]), est)
                    T.check(ok, G, case, "dep.estimates: per-interval estimates scattered unmodified",
                            f"scattered {_offsets(colls[0])[:3].tolist() if colls else None} expected {est[:3].tolist()}", inp)
                T.check(ax.get_ylabel() == rename.get(par_name, par_name), G, case, "dep.labels: parameter name (renamed iff requested)", f"ylabel {ax.get_ylabel()!r}", inp)
        T.check(k == len(axes), G, case, "dep.curve: one axes per conditional parameter", f"{len(axes)} axes for {k} conditional parameters", inp)
    finally:
        plt.close("all")


def _check_iso(inp, T, case):
    G = "plot_2D_isodensity"
    model, sem = build_model(inp["model"])
    sample = model.draw_sample(int(inp["n"]), random_state=int(inp["sample_seed"]))
    swap = bool(inp["swap"])
    xi, yi = (1, 0) if swap else (0, 1)
    fig, ax = plt.subplots()
    plt.subplots()  # another figure becomes pyplot's CURRENT axes: what is drawn has to land on the axes that was passed
    seen = {}
    orig = ax.contour

    def spy(*a, **k):
        seen["args"], seen["kw"] = a, k
        return orig(*a, **k)

    ax.contour = spy
    kw = {"swap_axis": swap, "ax": ax, "n_grid_steps": int(inp["n_grid"])}
    lim = inp.get("limits")
    if lim is not None:
        kw["limits"] = [tuple(v) for v in lim]
    if inp.get("levels") is not None:
        kw["levels"] = list(inp["levels"])
    arg = sample if inp.get("sample_as", "ndarray") == "ndarray" else sample.tolist()
    try:
        try:
            plot_2D_isodensity(model, arg, **kw)
        except Exception:
            T.check(False, G, case, "iso.call: the isodensity plot is drawn", f"raised {last_line()}", inp)
            return
        if not T.check("args" in seen and len(seen["args"]) == 3, G, case, "iso.pdf: Axes.contour receives (X, Y, Z)", f"contour called with {len(seen.get('args', ()))} positional arguments", inp):
            return
        X, Y, Z = (np.asarray(v, dtype=float) for v in seen["args"])
        n = int(inp["n_grid"])
        ok = X.shape == Y.shape == Z.shape == (n, n)
        T.check(ok, G, case, "iso.pdf: grid of n_grid_steps x n_grid_steps nodes", f"shapes {X.shape} {Y.shape} {Z.shape}", inp)
        if ok:
            pts = np.c_[(Y if swap else X).ravel(), (X if swap else Y).ravel()]  # model coordinates of every plotted node
            ref = np.asarray(model.pdf(pts), dtype=float).reshape(n, n)
            same = np.array_equal(np.nan_to_num(Z, nan=-1.0), np.nan_to_num(ref, nan=-1.0))
            worst = float(np.nanmax(np.abs(Z - ref) / (np.abs(ref) + 1e-300))) if not same else 0.0
            T.ok(G, n * n - 1)
            T.check(same or worst <= 1e-12, G, case, "iso.pdf: Z at every plotted node is the model's own pdf there (axes exchanged iff swap_axis)",
                    f"largest relative deviation {worst:.3g}", inp)
            # extent of the grid in plotted coordinates
            if lim is not None:
                ex = (lim[xi][0], lim[xi][1], lim[yi][0], lim[yi][1])
            else:
                rx = sample[:, xi].max() - sample[:, xi].min()
                ry = sample[:, yi].max() - sample[:, yi].min()
                ex = (sample[:, xi].min() - 0.05 * rx, sample[:, xi].max() + 0.05 * rx, sample[:, yi].min() - 0.05 * ry, sample[:, yi].max() + 0.05 * ry)
            got = (X.min(), X.max(), Y.min(), Y.max())
            T.check(np.allclose(got, ex, rtol=1e-12, atol=1e-12), G, case, "iso.grid: the grid spans the limits of the plotted variables", f"grid extent {got}, expected {ex}", inp)
        if inp.get("levels") is not None:
            T.check(list(seen["kw"].get("levels", [])) == list(inp["levels"]), G, case, "iso.levels: the supplied levels are drawn", f"levels {seen['kw'].get('levels')}", inp)
        colls = [c for c in ax.collections if type(c).__name__ == "PathCollection"]
        ok = len(colls) >= 1 and np.array_equal(_offsets(colls[0]), sample[:, [xi, yi]])
        T.check(ok, G, case, "iso.sample: sample scattered as supplied", f"{len(colls)} scatter collections", inp)
        T.check(ax.get_xlabel() == _label(virocon.plotting.get_default_semantics(2), xi), G, case, "iso.labels: axis labels of the plotted variables", ax.get_xlabel(), inp)
    finally:
        plt.close("all")


def _hist_heights(ax):
    polys = [p for p in ax.patches if hasattr(p, "get_xy")]
    if len(polys) != 1:
        return None
    xy = np.asarray(polys[0].get_xy(), dtype=float)
    return xy


def _fixed_interval_model(k):
    """deterministic fitted model whose conditional dimension has exactly k intervals of 40 points each"""
    from virocon import DependenceFunction, LogNormalDistribution, WeibullDistribution, WidthOfIntervalSlicer
    from ._common_D import _const1, _lin2
    dd = [{"distribution": WeibullDistribution(), "intervals": WidthOfIntervalSlicer(width=0.5, min_n_points=20)},
          {"distribution": LogNormalDistribution(), "conditional_on": 0, "parameters": {"mu": DependenceFunction(_lin2), "sigma": DependenceFunction(_const1)}}]
    model = GlobalHierarchicalModel(dd)
    j = (np.arange(40) + 0.5) / 40
    hs = np.concatenate([0.5 * i + 0.05 + 0.4 * j for i in range(k)])
    z = np.random.default_rng(0).normal(size=len(hs))
    tz = np.exp(1.0 + 0.2 * hs + 0.15 * z)
    data = np.c_[hs, tz]
    model.fit(data)
    return model, virocon.plotting.get_default_semantics(2), data


def _check_hist(inp, T, case):
    G = "plot_histograms_of_interval_distributions"
    try:
        if inp.get("fixed_intervals"):
            model, sem, data = _fixed_interval_model(int(inp["fixed_intervals"]))
        else:
            model, sem, data = _fit_like(inp["model"], inp["n"], inp["fit_seed"])
    except Exception:
        T.key(("hist", "fit failed", case), nontrivial=False)
        return "trivial"
    n_int = max([len(d.distributions_per_interval) for d, c in zip(model.distributions, model.conditional_on) if c is not None] or [0])
    if inp.get("fixed_intervals"):
        assert n_int == int(inp["fixed_intervals"]), n_int
    elif n_int >= 16:
        # > 16 intervals: documented NotImplementedError of the automatic axes creation; exactly 16: covered by the fixed scenario
        T.key(("hist", ">=16 intervals", case), nontrivial=False)
        return "trivial"
    plot_pdf = bool(inp["plot_pdf"])
    try:
        try:
            figs, axes_list = plot_histograms_of_interval_distributions(model, data if inp.get("sample_as", "ndarray") == "ndarray" else data.tolist(), plot_pdf=plot_pdf)
        except Exception:
            T.check(False, G, case, "hist.call: the histograms are drawn", f"raised {last_line()}", inp)
            return
        T.check(len(axes_list) == model.n_dim, G, case, "hist.call: one figure per dimension", f"{len(axes_list)} axes entries", inp)

        def one(ax, dat, dist, what):
            dat = np.asarray(dat, dtype=float)
            x = np.linspace(np.min(dat), np.max(dat))
            lines = ax.get_lines()
            if plot_pdf:
                y = np.asarray(dist.pdf(x), dtype=float)
                ok = len(lines) == 1 and np.array_equal(np.asarray(lines[0].get_xdata(), float), x) and np.array_equal(np.asarray(lines[0].get_ydata(), float), y)
                T.check(ok, G, case, "hist.pdf: the curve is the (interval) distribution's own pdf", f"{what}: {len(lines)} lines, y[:3]="
                        f"{np.asarray(lines[0].get_ydata())[:3].tolist() if lines else None} expected {y[:3].tolist()}", inp)
            else:
                T.check(len(lines) == 0, G, case, "hist.pdf: no curve when plot_pdf is False", f"{what}: {len(lines)} lines", inp)
            xy = _hist_heights(ax)
            dens, edges = np.histogram(dat, bins="doane", density=True)
            ok = xy is not None and set(np.round(np.unique(xy[:, 1]), 12)) <= set(np.round(np.r_[dens, 0.0], 12)) \
                and set(np.round(dens, 12)) <= set(np.round(np.unique(xy[:, 1]), 12)) and np.isclose(xy[:, 0].min(), edges[0]) and np.isclose(xy[:, 0].max(), edges[-1])
            T.check(ok, G, case, "hist.data: density histogram of exactly the (interval) data", f"{what}: polygon heights do not match numpy.histogram(data, 'doane', density=True)", inp)
            T.check(f"n={len(dat)}" in ax.get_title(), G, case, "hist.data: title states the number of points", f"{what}: title {ax.get_title()!r}", inp)

        for dim in range(model.n_dim):
            if model.conditional_on[dim] is None:
                one(axes_list[dim], data[:, dim], model.distributions[dim], f"dim {dim}")
            else:
                cd = model.distributions[dim]
                for i, dist in enumerate(cd.distributions_per_interval):
                    one(axes_list[dim][i], cd.data_intervals[i], dist, f"dim {dim} interval {i}")
    finally:
        plt.close("all")


def _check_mquant(inp, T, case):
    G = "plot_marginal_quantiles"
    model, sem = build_model(inp["model"])
    sample = model.draw_sample(int(inp["n"]), random_state=int(inp["sample_seed"]))
    calls = []
    orig = model.marginal_icdf

    def spy(p, dim, *a, **k):
        out = orig(p, dim, *a, **k)
        calls.append((dim, np.array(p, dtype=float).copy(), np.array(out, dtype=float).copy()))
        return out

    model.marginal_icdf = spy  # instance attribute of OUR model object; the class is untouched
    np.random.seed(int(inp["sample_seed"]) % (2**32))
    try:
        try:
            axes = plot_marginal_quantiles(model, sample if inp.get("sample_as", "ndarray") == "ndarray" else sample.tolist())
        except Exception:
            T.check(False, G, case, "mq.call: the QQ plots are drawn", f"raised {last_line()}", inp)
            return
        T.check(len(axes) == model.n_dim, G, case, "mq.call: one axes per dimension", f"{len(axes)} axes", inp)
        for dim in range(model.n_dim):
            lines = axes[dim].get_lines()
            mine = [c for c in calls if c[0] == dim]
            ok = len(lines) == 2 and len(mine) >= 1
            if ok:
                gx, gy = np.asarray(lines[0].get_xdata(), float), np.asarray(lines[0].get_ydata(), float)
                okx = any(gx.shape == c[2].shape and np.array_equal(gx, c[2]) for c in mine)
                oky = np.array_equal(gy, np.sort(sample[:, dim]))
                T.check(okx, G, case, "mq.quantiles: abscissae are the model's marginal_icdf values as returned", f"dim {dim}: x[:3]={gx[:3].tolist()}, returned {mine[-1][2][:3].tolist()}", inp)
                T.check(oky, G, case, "mq.sample: ordinates are the ordered sample values", f"dim {dim}: y[:3]={gy[:3].tolist()}", inp)
                p = mine[-1][1]
                T.check(len(p) == len(sample) and np.all(np.diff(p) > 0) and p[0] > 0 and p[-1] < 1, G, case,
                        "mq.quantiles: one plotting position per sample point", f"dim {dim}: {len(p)} probabilities", inp)
                l1x, l1y = np.asarray(lines[1].get_xdata(), float), np.asarray(lines[1].get_ydata(), float)
                T.check(np.array_equal(l1x, l1y), G, case, "mq.diagonal: the reference line is the 45 degree line", f"{l1x.tolist()} {l1y.tolist()}", inp)
            else:
                T.check(False, G, case, "mq.quantiles: abscissae are the model's marginal_icdf values as returned", f"dim {dim}: {len(lines)} lines, {len(mine)} icdf calls", inp)
    finally:
        plt.close("all")


def _bench_rows(inp):
    rng = np.random.default_rng(int(inp["seed"]))
    n, nc = int(inp["n_rows"]), int(inp["n_cols"])
    start = _dt.datetime(int(rng.integers(1950, 2030)), int(rng.integers(1, 13)), int(rng.integers(1, 29)), int(rng.integers(0, 24)))
    if inp["order"] == "hourly":
        hours = np.arange(n)
    elif inp["order"] == "gaps":
        hours = np.cumsum(rng.integers(1, 50, n))
    else:  # shuffled with duplicates
        hours = rng.integers(0, max(2, n // 2), n)
    stamps = [start + _dt.timedelta(hours=int(h)) for h in hours]
    vals = np.round(rng.uniform(0, 30, (n, nc)) * (rng.uniform(0, 1, (n, nc)) > 0.02), 4)
    return stamps, vals


def _check_reader(inp, T, case, scratch):
    G = "read_ec_benchmark_dataset"
    if inp.get("default_file"):
        path = os.path.join(os.path.dirname(os.path.dirname(virocon.__file__)), "datasets", "ec-benchmark_dataset_A.txt")
        with open(path) as f:
            raw = f.read().split("\n")
        names = [c.strip() for c in raw[0].split(";")][1:]
        rows = [r.split(";") for r in raw[1:] if r.strip()]
        stamps = [_dt.datetime.strptime(r[0].strip(), "%Y-%m-%d-%H") for r in rows]
        texts = [[c.strip() for c in r[1:]] for r in rows]
        try:
            df = read_ec_benchmark_dataset()
        except Exception:
            T.check(False, G, case, "read.call: the default dataset is read", f"raised {last_line()}", inp)
            return
    else:
        stamps, vals = _bench_rows(inp)
        names = list(inp["names"])
        sep = inp.get("sep", "; ")
        texts = [[f"{v:.4f}" for v in row] for row in vals]
        base = tempfile.mkdtemp(prefix="read_", dir=scratch)
        path = os.path.join(base, "dataset.txt")
        with open(path, "w") as f:
            f.write(sep.join(["time (YYYY-MM-DD-HH)"] + names) + "\n")
            body = "\n".join(sep.join([s.strftime("%Y-%m-%d-%H")] + t) for s, t in zip(stamps, texts))
            f.write(body + ("\n" if inp.get("trailing_newline", True) else ""))
        try:
            try:
                df = read_ec_benchmark_dataset(path)
            except Exception:
                T.check(False, G, case, "read.call: the file is read", f"raised {last_line()}", inp)
                return
        finally:
            shutil.rmtree(base, ignore_errors=True)
    n = len(stamps)
    T.check(len(df) == n, G, case, "read.rows: every data row is returned", f"{len(df)} rows for {n} data lines", inp)
    T.check([str(c) for c in df.columns] == names, G, case, "read.columns: one column per data column, named by the header", f"columns {list(df.columns)} expected {names}", inp)
    if len(df) == n and df.shape[1] == len(names):
        ref = np.array([[float(x) for x in t] for t in texts], dtype=float).reshape(n, len(names))
        got = np.asarray(df.values, dtype=float)
        T.ok(G, n - 1)
        bad = np.nonzero(~np.all(got == ref, axis=1))[0]
        T.check(len(bad) == 0, G, case, "read.values: every row's values, in order", f"first differing row {int(bad[0]) if len(bad) else None}: "
                f"{got[bad[0]].tolist() if len(bad) else None} expected {ref[bad[0]].tolist() if len(bad) else None}", inp)
        idx = [pd.Timestamp(s) for s in stamps]
        T.ok(G, n - 1)
        same = list(df.index) == idx
        T.check(same, G, case, "read.index: the time stamp of every row is its index", f"index[:3]={list(df.index[:3])} expected {idx[:3]}", inp)


def _check(inp, T=None, case=None, scratch=None):
    T = T or Tally()
    case = case or inp.get("case", "replay")
    own = None
    if scratch is None:
        own = scratch = tempfile.mkdtemp(prefix="rtc_C20_", dir=os.environ.get("VF_SCRATCH") or None)
    try:
        t = inp["type"]
        if t == "save":
            r = _check_save(inp, T, case, scratch)
        elif t == "plot2d":
            r = _check_plot2d(inp, T, case)
        elif t == "depfun":
            r = _check_depfun(inp, T, case)
        elif t == "iso":
            r = _check_iso(inp, T, case)
        elif t == "hist":
            r = _check_hist(inp, T, case)
        elif t == "mquant":
            r = _check_mquant(inp, T, case)
        elif t == "reader":
            r = _check_reader(inp, T, case, scratch)
        else:
            raise ValueError(t)
    finally:
        if own:
            shutil.rmtree(own, ignore_errors=True)
    return T, r


# ------------------------------------------------------------------------------- scenario generation
def _usable_contour(rng, cls, n_dim, T):
    """a recipe whose contour is a single finite (n, n_dim) point set (HDC may split into several modes)"""
    for _ in range(30):
        rec = _random_contour_rec(rng, cls, n_dim)
        try:
            c, _, _ = _make_contour(rec)
            co = c.coordinates
            if isinstance(co, np.ndarray) and co.ndim == 2 and co.shape[1] == n_dim and len(co) >= 3 and np.all(np.isfinite(_coords_as_float(co))):
                return rec
        except Exception:
            pass
        T.key(("contour", cls, n_dim, "unusable"), nontrivial=False)
    raise RuntimeError(f"no usable {cls} contour in {n_dim}-D")


def _scenarios(rng, tier, T):
    scen = []
    rep = 1 if tier == "quick" else 10
    # --- saving: all classes 2-D, three classes 3-D, x path kinds x semantics kinds
    for _ in range(rep):
        k = 0
        for n_dim, classes in ((2, CLASSES_2D), (3, CLASSES_3D)):
            for cls in classes:
                rec = _usable_contour(rng, cls, n_dim, T)
                kinds = PATH_KINDS if tier != "quick" else [PATH_KINDS[(k + j) % len(PATH_KINDS)] for j in range(3)]
                k += 3
                for j, pk in enumerate(kinds):
                    semk = ["default", "random", "model"][j % 3]
                    sem = None
                    if semk == "random":
                        sem = _random_semantics(rng, n_dim)
                    elif semk == "model":
                        sem = jsonable(build_model(rec["model"])[1])
                    scen.append((f"save/{cls}{n_dim}d/path={pk}/sem={semk}", {"type": "save", "contour": rec, "path_kind": pk, "semantics": sem}))
    # fixed: every path kind once on a fixed contour
    fixed_rec = {"cls": "IFORM", "model": {"struct": "indep2", "params": {"d0": [2.0, 1.5, 0.5], "d1": [1.0, 0.4]}}, "alpha": 0.01, "n_points": 12}
    for pk in PATH_KINDS:
        scen.append((f"save/fixed-IFORM2d/path={pk}/sem=random", {"type": "save", "contour": fixed_rec, "path_kind": pk, "semantics": _random_semantics(rng, 2)}))
    # --- plot_2D_contour: every class x dc x swap
    for _ in range(rep):
        for cls in CLASSES_2D:
            rec = _usable_contour(rng, cls, 2, T)
            i = 0
            for dc in ("none", "true", "array"):
                for swap in (False, True):
                    i += 1
                    inp = {"type": "plot2d", "contour": rec, "dc": dc, "swap": swap, "sample": ["none", "ndarray", "list", "dataframe"][(i + int(rng.integers(0, 4))) % 4],
                           "sample_seed": int(rng.integers(0, 2**31)), "n_sample": int(rng.integers(1, 60)), "own_ax": bool(rng.integers(0, 2)),
                           "semantics": ["default", "model"][int(rng.integers(0, 2))]}
                    scen.append((f"plot2d/{cls}/dc={dc}/swap={int(swap)}", inp))
    # --- dependence functions
    dep_structs = ["dnvgl_hs_tz", "omae_hs_tz", "dnvgl_hs_u", "omae_v_hs", "chain3", "fork3", "mixed3"]
    for _ in range(rep):
        for s in dep_structs:
            scen.append((f"depfun/{s}/unfitted", {"type": "depfun", "model": random_spec(rng, s), "fitted": False, "semantics": bool(rng.integers(0, 2)),
                                                 "par_rename": {"mu": "$\\mu$", "alpha": "scale"} if rng.integers(0, 2) else None}))
        for s in ("dnvgl_hs_tz", "omae_hs_tz", "dnvgl_hs_u", "fork3", "fixfirst2"):
            scen.append((f"depfun/{s}/fitted", {"type": "depfun", "model": random_spec(rng, s), "fitted": True, "n": int(rng.integers(1500, 4000)),
                                               "fit_seed": int(rng.integers(0, 2**31)), "semantics": True, "par_rename": None}))
    # --- isodensity
    for _ in range(rep):
        for s in ("dnvgl_hs_tz", "omae_hs_tz", "dnvgl_hs_u", "omae_v_hs", "indep2"):
            for swap in (False, True):
                for lim in ("auto", "given"):
                    spec = random_spec(rng, s)
                    limits = None
                    if lim == "given":
                        m, _ = build_model(spec)
                        smp = m.draw_sample(200, random_state=3)
                        limits = [[float(rng.uniform(0.01, 0.2)), float(1.2 * smp[:, 0].max())], [float(rng.uniform(0.01, 0.2)), float(1.3 * smp[:, 1].max())]]
                    levels = None if rng.integers(0, 2) else sorted(float(v) for v in 10 ** rng.uniform(-5, -1, 3))
                    scen.append((f"iso/{s}/swap={int(swap)}/limits={lim}", {"type": "iso", "model": spec, "swap": swap, "limits": limits, "levels": levels,
                                                                           "n_grid": int(rng.integers(15, 45)), "n": int(rng.integers(20, 300)),
                                                                           "sample_seed": int(rng.integers(0, 2**31)), "sample_as": ["ndarray", "list"][int(rng.integers(0, 2))]}))
    # a variable that takes both signs (own random stream: the scenarios above stay as they were)
    rng_s = np.random.default_rng(4242)  # seed independent core
    for swap in (False, True):
        for lim in ("auto", "given"):
            spec = random_spec(rng_s, "signed2")
            limits = None
            if lim == "given":
                m, _ = build_model(spec)
                smp = m.draw_sample(200, random_state=3)
                limits = [[0.05, float(1.2 * smp[:, 0].max())], [float(smp[:, 1].min() - 1.0), float(smp[:, 1].max() + 1.0)]]
            scen.append((f"iso/signed2/swap={int(swap)}/limits={lim}", {"type": "iso", "model": spec, "swap": swap, "limits": limits, "levels": None if swap else [1e-4, 1e-3, 1e-2],
                                                                        "n_grid": 30, "n": 150, "sample_seed": int(rng_s.integers(0, 2**31)), "sample_as": "ndarray"}))
    # --- histograms of interval distributions
    for _ in range(rep):
        for s in ("dnvgl_hs_tz", "omae_hs_tz", "dnvgl_hs_u", "fork3"):
            for pp in (True, False):
                scen.append((f"hist/{s}/pdf={int(pp)}", {"type": "hist", "model": random_spec(rng, s), "n": int(rng.integers(1500, 4000)), "fit_seed": int(rng.integers(0, 2**31)),
                                                        "plot_pdf": pp, "sample_as": ["ndarray", "list"][int(rng.integers(0, 2))]}))
    for k in (3, 4, 15, 16):
        scen.append((f"hist/fixed-{k}-intervals", {"type": "hist", "fixed_intervals": k, "plot_pdf": True}))
    # --- marginal quantiles
    for _ in range(rep):
        for s in ("dnvgl_hs_tz", "omae_v_hs", "indep2", "fork3", "indep3"):
            scen.append((f"mquant/{s}", {"type": "mquant", "model": random_spec(rng, s), "n": int(rng.integers(5, 400)), "sample_seed": int(rng.integers(0, 2**31)),
                                         "sample_as": ["ndarray", "list"][int(rng.integers(0, 2))]}))
    # --- benchmark reader
    sizes = [1, 2, 3, 17, 240, 1000, 10000] if tier == "quick" else [1, 2, 3, 5, 17, 99, 240, 1000, 2500, 5000, 8760, 10000]
    std_names = ["significant wave height (m)", "zero-up-crossing period (s)", "wind speed (m/s)"]
    for _ in range(rep):
        for i, n in enumerate(sizes):
            nc = 2 if i % 3 else 3
            order = ["hourly", "gaps", "shuffled"][i % 3]
            names = std_names[:nc] if i % 2 == 0 else [f"col {j} [{'xyz'[j]}] (u{j})" for j in range(nc)]
            scen.append((f"reader/rows={n}/{order}", {"type": "reader", "n_rows": n, "n_cols": nc, "seed": int(rng.integers(0, 2**31)), "order": order, "names": names,
                                                     "sep": ["; ", ";"][i % 2], "trailing_newline": bool(i % 4 != 3)}))
    scen.append(("reader/default-dataset-A", {"type": "reader", "default_file": True}))
    return scen


def run(tier, seed):
    t0 = time.time()
    rng = np.random.default_rng(seed)
    T = Tally()
    scratch = tempfile.mkdtemp(prefix="rtc_C20_", dir=os.environ.get("VF_SCRATCH") or None)
    try:
        scen = _scenarios(rng, tier, T)
        for case, inp in scen:
            inp = dict(inp, case=case)
            _, r = _check(inp, T, case, scratch)
            if r != "trivial":
                T.key((case, repr(jsonable(inp))[:400]))
            if len(T.samples) < 8 and (not T.samples or T.samples[-1]["case"].split("/")[0] != case.split("/")[0]):
                T.samples.append({"case": case, "inputs": jsonable({k: v for k, v in inp.items() if k != "case"})})
    finally:
        shutil.rmtree(scratch, ignore_errors=True)
    g = T.groups
    n_by = lambda p: sum(1 for c, _ in scen if c.startswith(p))  # noqa: E731
    return {
        "evaluations": T.evaluations,
        "distinct_nontrivial": len(T.keys),
        "failures": jsonable(T.failures),
        "bounded": [
            {"what": "save_contour_coordinates: written file re-parsed (IFORM/ISORM/HDC/DirectSampling/And/Or contours in 2-D, IFORM/ISORM/HDC in 3-D of random models)",
             "bound": f"{n_by('save/')} files; path kinds {list(PATH_KINDS)}; semantics default / model / random strings (<=15 chars incl. ';', quotes, tabs, non-ASCII; no line breaks)",
             "evaluations": g.get("save_contour_coordinates", 0), "rule": "distinct = (class, model parameters, path kind, semantics); every row counts as one evaluation per clause"},
            {"what": "plot_2D_contour: Agg line / collection data read back for every 2-D contour class",
             "bound": f"{n_by('plot2d/')} calls: design_conditions None/True/ndarray x swap_axis x sample None/ndarray/list/DataFrame x own axes / new figure",
             "evaluations": g.get("plot_2D_contour", 0), "rule": "distinct = full argument recipe; trivial = design_conditions=True where calculate_design_conditions itself raises (C17)"},
            {"what": "plot_dependence_functions / plot_2D_isodensity / plot_histograms_of_interval_distributions / plot_marginal_quantiles: data handed to matplotlib",
             "bound": f"{n_by('depfun/')} + {n_by('iso/')} + {n_by('hist/')} + {n_by('mquant/')} calls on random 2-D/3-D models (fitted to 1500..4000 simulated points where a fit is needed), grids of 15..44 nodes per axis",
             "evaluations": g.get("plot_dependence_functions", 0) + g.get("plot_2D_isodensity", 0) + g.get("plot_histograms_of_interval_distributions", 0) + g.get("plot_marginal_quantiles", 0),
             "rule": "distinct = full argument recipe; every grid node of the isodensity plot counts as one evaluation; trivial = model whose fit raises"},
            {"what": "read_ec_benchmark_dataset on synthetic benchmark-format files and on the shipped default dataset",
             "bound": f"{n_by('reader/')} files of 1..10000 rows, 2 or 3 data columns, hourly / gapped / shuffled-with-duplicates time stamps, ';' and '; ' separators",
             "evaluations": g.get("read_ec_benchmark_dataset", 0), "rule": "distinct = file recipe; every row counts as one evaluation per clause (values, index)"},
        ],
        "samples": T.samples,
        "trivial": T.trivial,
        "seconds": round(time.time() - t0, 2),
    }


def replay(doc):
    T, _ = _check(doc["inputs"], Tally(), doc.get("case", "replay"))
    want = doc.get("clause")
    fails = [f for f in T.failures if want is None or f["clause"].split(":")[0] == want.split(":")[0]]
    return len(fails) == 0
