"""Shared helpers of the RTC drivers C01, C02, C03, C04, C15 (bounded stand-in, never counted as proved).

* json-able *model recipes* -> real ``virocon.GlobalHierarchicalModel`` objects (``build_model``)
* seeded recipe generator covering the shipped families, every ``conditional_on`` structure with
  ``conditional_on[i] < i`` and a set of dependence-function shapes that keep the parameters admissible
* small bookkeeping class for evaluations / failures
"""
import itertools
import traceback
import zlib

import copy
import numpy as np

import virocon
from virocon import (
    DependenceFunction,
    ExponentiatedWeibullDistribution,
    GeneralizedGammaDistribution,
    GlobalHierarchicalModel,
    LogNormalDistribution,
    NormalDistribution,
    VonMisesDistribution,
    WeibullDistribution,
)
from virocon.distributions import LogNormalNormFitDistribution, ScipyDistribution


class GammaDistribution(ScipyDistribution):
    """A ScipyDistribution subclass (the documented way to wrap a scipy family)."""

    scipy_dist_name = "gamma"


FAMILIES = {
    "Weibull": WeibullDistribution,
    "LogNormal": LogNormalDistribution,
    "Normal": NormalDistribution,
    "LogNormalNormFit": LogNormalNormFitDistribution,
    "ExponentiatedWeibull": ExponentiatedWeibullDistribution,
    "GeneralizedGamma": GeneralizedGammaDistribution,
    "VonMises": VonMisesDistribution,
    "ScipyGamma": GammaDistribution,
}

# per family: parameter -> (kind, lo, hi); kind "pos" must stay > 0, "loc" may be any real number.
PARAMS = {
    "Weibull": {"alpha": ("pos", 0.5, 5.0), "beta": ("pos", 0.8, 3.0), "gamma": ("pos", 0.0, 2.0)},
    "LogNormal": {"mu": ("loc", -0.5, 2.0), "sigma": ("pos", 0.1, 0.8)},
    "Normal": {"mu": ("loc", -3.0, 10.0), "sigma": ("pos", 0.3, 3.0)},
    "LogNormalNormFit": {"mu_norm": ("pos", 1.0, 10.0), "sigma_norm": ("pos", 0.3, 3.0)},
    "ExponentiatedWeibull": {"alpha": ("pos", 0.3, 3.0), "beta": ("pos", 0.6, 2.5), "delta": ("pos", 0.5, 6.0)},
    "GeneralizedGamma": {"m": ("pos", 0.5, 4.0), "c": ("pos", 0.5, 3.0), "lambda_": ("pos", 0.2, 3.0)},
    "VonMises": {"kappa": ("pos", 0.3, 5.0), "mu": ("loc", -1.0, 1.0)},
    "ScipyGamma": {"a": ("pos", 0.8, 5.0), "loc": ("pos", 0.0, 1.0), "scale": ("pos", 0.3, 3.0)},
}
NONNEG = {"Weibull", "LogNormal", "LogNormalNormFit", "ExponentiatedWeibull", "GeneralizedGamma", "ScipyGamma"}
FAMILY_NAMES = list(FAMILIES)

# dependence-function shapes.  domain "pos": needs x >= 0; "real": any x.  bounded: value range is bounded.
SHAPES = {
    "power3": dict(domain="pos", bounded=False),
    "exp3": dict(domain="pos", bounded=True),
    "asymdecrease3": dict(domain="pos", bounded=True),
    "lnsquare2": dict(domain="pos", bounded=False),
    "logistics4": dict(domain="real", bounded=True),
    "bump3": dict(domain="real", bounded=True),
    "linear2": dict(domain="real", bounded=False),
    "const1": dict(domain="real", bounded=True),
}


def _mk_power3(a, b, c):
    def _power3(x, a=a, b=b, c=c):
        return a + b * x**c

    return _power3


def _mk_exp3(a, b, c):
    def _exp3(x, a=a, b=b, c=c):
        return a + b * np.exp(c * x)

    return _exp3


def _mk_asymdecrease3(a, b, c):
    def _asymdecrease3(x, a=a, b=b, c=c):
        return a + b / (1 + c * x)

    return _asymdecrease3


def _mk_lnsquare2(a, b):
    def _lnsquare2(x, a=a, b=b):
        return np.log(a + b * np.sqrt(np.divide(x, 9.81)))

    return _lnsquare2


def _mk_logistics4(a, b, c, d):
    def _logistics4(x, a=a, b=b, c=c, d=d):
        return a + b / (1 + np.exp(c * (x - d)))

    return _logistics4


def _mk_bump3(a, b, c, d):
    def _bump3(x, a=a, b=b, c=c, d=d):
        return a + b * np.exp(-(((x - d) / c) ** 2))

    return _bump3


def _mk_linear2(a, b):
    def _linear2(x, a=a, b=b):
        return a + b * x

    return _linear2


def _mk_const1(a):
    def _const1(x, a=a):
        return a + 0.0 * x

    return _const1


_MAKERS = {
    "power3": _mk_power3,
    "exp3": _mk_exp3,
    "asymdecrease3": _mk_asymdecrease3,
    "lnsquare2": _mk_lnsquare2,
    "logistics4": _mk_logistics4,
    "bump3": _mk_bump3,
    "linear2": _mk_linear2,
    "const1": _mk_const1,
}


def _alpha3(x, a, b, c, d_of_x):
    return (a + b * x**c) / 2.0445 ** (1 / d_of_x(x))


def make_dep(spec, siblings=None):
    """spec = {"shape": name, "coef": [...]} -> DependenceFunction with these coefficients as defaults.

    shape "alpha3" is the OMAE2020 V-Hs form whose last argument is the sibling dependence function
    named in spec["of"] (a dependence function depending on another one)."""
    shape = spec["shape"]
    coef = [float(c) for c in spec["coef"]]
    if shape == "alpha3":
        a, b, c = coef

        def _alpha3_fixed(x, a=a, b=b, c=c, d_of_x=None):
            return _alpha3(x, a, b, c, d_of_x)

        return DependenceFunction(_alpha3_fixed, d_of_x=siblings[spec["of"]])
    return DependenceFunction(_MAKERS[shape](*coef))


def eval_dep_spec(spec, x, all_specs=None):
    """independent (numpy only) evaluation of a dependence spec; used by drivers for cross checks."""
    shape = spec["shape"]
    c = [float(v) for v in spec["coef"]]
    x = np.asarray(x, dtype=float)
    if shape == "power3":
        return c[0] + c[1] * x ** c[2]
    if shape == "exp3":
        return c[0] + c[1] * np.exp(c[2] * x)
    if shape == "asymdecrease3":
        return c[0] + c[1] / (1 + c[2] * x)
    if shape == "lnsquare2":
        return np.log(c[0] + c[1] * np.sqrt(x / 9.81))
    if shape == "logistics4":
        return c[0] + c[1] / (1 + np.exp(c[2] * (x - c[3])))
    if shape == "bump3":
        return c[0] + c[1] * np.exp(-(((x - c[3]) / c[2]) ** 2))
    if shape == "linear2":
        return c[0] + c[1] * x
    if shape == "const1":
        return c[0] + 0.0 * x
    if shape == "alpha3":
        return (c[0] + c[1] * x ** c[2]) / 2.0445 ** (1 / eval_dep_spec(all_specs[spec["of"]], x, all_specs))
    raise ValueError(shape)


def build_model(recipe):
    """recipe = {"dims": [ {"family":..,"params":{..}} | {"family":..,"cond":j,"fixed":{..},"dep":{par:spec}} ]}"""
    descs = []
    for d in recipe["dims"]:
        cls = FAMILIES[d["family"]]
        if d.get("cond") is None:
            descs.append({"distribution": cls(**{k: float(v) for k, v in d["params"].items()})})
        else:
            fixed = {f"f_{k}": float(v) for k, v in d.get("fixed", {}).items()}
            deps = {}
            # dependence functions that other ones depend on must exist first
            order = sorted(d["dep"], key=lambda k: 1 if d["dep"][k]["shape"] == "alpha3" else 0)
            for k in order:
                deps[k] = make_dep(d["dep"][k], deps)
            descs.append({"distribution": cls(**fixed), "conditional_on": int(d["cond"]), "parameters": deps})
    return GlobalHierarchicalModel(descs)


def structures(n_dim):
    """all admissible conditional_on lists: entry 0 is None, entry i in {None, 0..i-1}."""
    opts = [[None]] + [[None] + list(range(i)) for i in range(1, n_dim)]
    return [list(t) for t in itertools.product(*opts)]


def struct_id(cond):
    return "".join("N" if c is None else str(c) for c in cond)


# ----------------------------------------------------------------------------------------------
# seeded recipe generator


def _r(rng, lo, hi, nd=4):
    return round(float(rng.uniform(lo, hi)), nd)


def _gen_uncond(rng, family):
    params = {k: _r(rng, lo, hi) for k, (kind, lo, hi) in PARAMS[family].items()}
    return {"family": family, "params": params}


def _gen_dep(rng, kind, lo, hi, x_nonneg, x_light):
    """a dependence spec whose values stay admissible (pos: > 0) on the conditioning variable's support."""
    shapes = ["logistics4", "bump3"]
    if x_nonneg:
        shapes += ["exp3", "asymdecrease3"]
        if x_light:
            shapes += ["power3", "lnsquare2"]
    if kind == "loc" and x_light:
        shapes += ["linear2"]
    shape = shapes[int(rng.integers(len(shapes)))]
    span = hi - lo
    a = _r(rng, lo + 0.05 * span, lo + 0.5 * span)
    b = _r(rng, 0.1 * span, 0.45 * span)
    if shape == "power3":
        c = _r(rng, 0.3, 0.9)
        coef = [a, round(b / 10**c, 5), c]
    elif shape == "exp3":
        coef = [a, b, -_r(rng, 0.05, 0.6)]
    elif shape == "asymdecrease3":
        coef = [a, b, _r(rng, 0.05, 1.0)]
    elif shape == "lnsquare2":
        # ln(a' + b' sqrt(x/g)) >= ln(a') ; choose a' = exp(a) so that value >= a > lo
        coef = [round(float(np.exp(max(a, 0.05))), 5), _r(rng, 0.2, 3.0)]
    elif shape == "logistics4":
        coef = [a, b, _r(rng, 0.2, 2.0) * (-1 if rng.random() < 0.5 else 1), _r(rng, 0.5, 6.0)]
    elif shape == "bump3":
        coef = [a, b, _r(rng, 0.5, 4.0), _r(rng, 0.0, 6.0)]
    elif shape == "linear2":
        coef = [a, _r(rng, -0.3, 0.3)]
    else:
        coef = [a]
    return {"shape": shape, "coef": coef}


def gen_recipe(rng, cond, families=None):
    """random recipe for the conditional_on list `cond`; families may pin the family per dimension."""
    dims = []
    nonneg = []
    light = []
    for i, c in enumerate(cond):
        fam = families[i] if families else FAMILY_NAMES[int(rng.integers(len(FAMILY_NAMES)))]
        if c is None:
            dims.append(_gen_uncond(rng, fam))
            nonneg.append(fam in NONNEG)
            light.append(fam not in ("LogNormal",))
        else:
            names = list(PARAMS[fam])
            k = int(rng.integers(1, len(names) + 1))
            depnames = [names[j] for j in sorted(rng.permutation(len(names))[:k])]
            dep = {}
            fixed = {}
            for name in names:
                kind, lo, hi = PARAMS[fam][name]
                if name in depnames:
                    dep[name] = _gen_dep(rng, kind, lo, hi, nonneg[c], light[c])
                else:
                    fixed[name] = _r(rng, lo, hi)
            dims.append({"family": fam, "cond": int(c), "fixed": fixed, "dep": dep})
            nonneg.append(fam in NONNEG)
            light.append(False)
    return {"dims": dims}


# a few fixed, published / predefined-style recipes -------------------------------------------------

DNVGL_HS_TZ = {
    "dims": [
        {"family": "Weibull", "params": {"alpha": 2.776, "beta": 1.471, "gamma": 0.8888}},
        {
            "family": "LogNormal",
            "cond": 0,
            "fixed": {},
            "dep": {
                "mu": {"shape": "power3", "coef": [0.1, 1.489, 0.1901]},
                "sigma": {"shape": "exp3", "coef": [0.04, 0.1748, -0.2243]},
            },
        },
    ]
}
DNVGL_HS_U = {
    "dims": [
        {"family": "Weibull", "params": {"alpha": 2.776, "beta": 1.471, "gamma": 0.8888}},
        {
            "family": "Weibull",
            "cond": 0,
            "fixed": {"gamma": 0.0},
            "dep": {
                "alpha": {"shape": "power3", "coef": [2.58, 0.12, 1.6]},
                "beta": {"shape": "power3", "coef": [4.6, 2.05, 0.0]},
            },
        },
    ]
}
OMAE_HS_TZ = {
    "dims": [
        {"family": "ExponentiatedWeibull", "params": {"alpha": 0.207, "beta": 0.684, "delta": 7.79}},
        {
            "family": "LogNormal",
            "cond": 0,
            "fixed": {},
            "dep": {
                "mu": {"shape": "lnsquare2", "coef": [3.62, 5.77]},
                "sigma": {"shape": "asymdecrease3", "coef": [0.0, 0.324, 0.404]},
            },
        },
    ]
}
OMAE_V_HS = {
    "dims": [
        {"family": "ExponentiatedWeibull", "params": {"alpha": 10.0, "beta": 2.42, "delta": 0.761}},
        {
            "family": "ExponentiatedWeibull",
            "cond": 0,
            "fixed": {"delta": 5.0},
            "dep": {
                "alpha": {"shape": "alpha3", "coef": [0.488, 0.0114, 2.03], "of": "beta"},
                "beta": {"shape": "logistics4", "coef": [0.714, 1.70, -0.304, 8.77]},
            },
        },
    ]
}
FIXED_2D = {"dnvgl_hs_tz": DNVGL_HS_TZ, "dnvgl_hs_u": DNVGL_HS_U, "omae_hs_tz": OMAE_HS_TZ, "omae_v_hs": OMAE_V_HS}


# ----------------------------------------------------------------------------------------------


def sub_seed(seed, *tags):
    """deterministic 32 bit seed from the run seed and stable tags (not python's randomised hash)."""
    s = repr((int(seed),) + tuple(str(t) for t in tags)).encode()
    return zlib.crc32(s) & 0x7FFFFFFF


def last_tb_line():
    return traceback.format_exc().strip().splitlines()[-1]


class Book:
    """evaluation / failure bookkeeping of one run."""

    def __init__(self):
        self.evaluations = 0
        self.failures = []
        self._seen = {}
        self.keys = set()
        self.samples = []
        self.per_group = {}

    def ev(self, group, ok, case, clause, detail, inputs):
        """one predicate evaluation on the real code; records a failure (first per case id) if not ok."""
        self.evaluations += 1
        self.per_group[group] = self.per_group.get(group, 0) + 1
        if not ok:
            if case in self._seen:
                self._seen[case]["occurrences"] += 1
            else:
                f = {"case": case, "clause": clause, "detail": str(detail)[:600], "inputs": inputs, "occurrences": 1}
                self._seen[case] = f
                self.failures.append(f)
        return bool(ok)

    def count(self, group, n):
        """n passed evaluations at once (vectorised predicate)"""
        self.evaluations += int(n)
        self.per_group[group] = self.per_group.get(group, 0) + int(n)

    def nontrivial(self, key):
        self.keys.add(key)

    def sample(self, s, limit=6):
        if len(self.samples) < limit:
            self.samples.append(s)


def jsonable(o):
    if isinstance(o, dict):
        return {str(k): jsonable(v) for k, v in o.items()}
    if isinstance(o, (list, tuple)):
        return [jsonable(v) for v in o]
    if isinstance(o, np.ndarray):
        return jsonable(o.tolist())
    if isinstance(o, (np.floating,)):
        return float(o)
    if isinstance(o, (np.integer,)):
        return int(o)
    if isinstance(o, (np.bool_,)):
        return bool(o)
    return o


__all__ = [n for n in dir() if not n.startswith("__")]
_ = virocon


# ==============================================================================================
# highest-density-contour helpers shared by C02 and C15
import math  # noqa: E402
import warnings  # noqa: E402
import scipy.stats as sts  # noqa: E402

class TwoSystemNormal(NormalDistribution):
    """equal mixture of N(mu, sigma) and N(mu + 3, sigma) ("wind sea + swell"): a user-defined family with a bimodal
    conditional, so that two disconnected regions can be parallel diagonal bands whose bounding boxes overlap"""
    shift = 3.0

    def cdf(self, x, mu=None, sigma=None):
        loc, scale = self._get_scipy_parameters(mu, sigma)
        return 0.5 * sts.norm.cdf(x, loc, scale) + 0.5 * sts.norm.cdf(x, loc + self.shift, scale)

    def pdf(self, x, mu=None, sigma=None):
        loc, scale = self._get_scipy_parameters(mu, sigma)
        return 0.5 * sts.norm.pdf(x, loc, scale) + 0.5 * sts.norm.pdf(x, loc + self.shift, scale)


FAMILIES["TwoSystemNormal"] = TwoSystemNormal  # (not in FAMILY_NAMES: never drawn by the random recipe generator)

BIMODAL_DIAGONAL_2D = {
    "dims": [
        {"family": "Normal", "params": {"mu": 5.0, "sigma": 1.5}},
        {"family": "TwoSystemNormal", "cond": 0, "fixed": {"sigma": 0.35}, "dep": {"mu": {"shape": "linear2", "coef": [0.0, 1.0]}}},
    ]
}
BIMODAL_2D = {
    "dims": [
        {"family": "Normal", "params": {"mu": 5.0, "sigma": 1.0}},
        {"family": "Normal", "cond": 0, "fixed": {"mu": 3.0}, "dep": {"sigma": {"shape": "bump3", "coef": [0.2, 3.0, 0.3, 5.0]}}},
    ]
}
EDGE_2D = {
    "dims": [
        {"family": "ExponentiatedWeibull", "params": {"alpha": 2.3341, "beta": 1.2419, "delta": 1.227}},
        {"family": "ScipyGamma", "cond": 0, "fixed": {"a": 4.4727, "loc": 0.4188},
         "dep": {"scale": {"shape": "exp3", "coef": [0.5347, 1.1458, -0.3923]}}},
    ]
}
HDC_3D_FIXED = {
    "dims": [
        {"family": "Weibull", "params": {"alpha": 2.776, "beta": 1.471, "gamma": 0.8888}},
        {"family": "LogNormal", "cond": 0, "fixed": {},
         "dep": {"mu": {"shape": "power3", "coef": [0.1, 1.489, 0.1901]}, "sigma": {"shape": "exp3", "coef": [0.04, 0.1748, -0.2243]}}},
        {"family": "Weibull", "cond": 0, "fixed": {"gamma": 0.0},
         "dep": {"alpha": {"shape": "power3", "coef": [2.58, 0.12, 1.6]}, "beta": {"shape": "power3", "coef": [4.6, 2.05, 0.0]}}},
    ]
}


def hdc_decode_limits(inputs):
    lim = inputs.get("limits")
    if lim is None:
        return None
    form = inputs.get("limits_form", "tuples")
    if form == "tuples":
        return [tuple(p) for p in lim]
    if form == "lists":
        return [list(p) for p in lim]
    if form == "reversed":
        return [(p[1], p[0]) for p in lim]
    raise ValueError(form)


def hdc_decode_deltas(inputs):
    d = inputs.get("deltas")
    if d is None:
        return None
    form = inputs.get("deltas_form", "list")
    if form == "scalar":
        return float(d)
    if form == "list":
        return [float(v) for v in d]
    if form == "tuple":
        return tuple(float(v) for v in d)
    if form == "ndarray":
        return np.array(d, dtype=float)
    raise ValueError(form)


def hdc_run(inputs):
    """build the model and the real HighestDensityContour; returns (model, contour, runtime_warning_messages)."""
    from virocon import HighestDensityContour

    model = build_model(inputs["recipe"])
    np.random.seed(int(inputs.get("global_seed", 0)))  # default limits use a Monte-Carlo marginal_icdf (global state)
    limits = hdc_decode_limits(inputs)
    deltas = hdc_decode_deltas(inputs)
    with warnings.catch_warnings(record=True) as wl:
        warnings.simplefilter("always")
        if inputs.get("call") == "keywords":
            con = HighestDensityContour(model=model, alpha=float(inputs["alpha"]), limits=limits, deltas=deltas)
        else:
            con = HighestDensityContour(model, float(inputs["alpha"]), limits, deltas)
    msgs = [str(w.message) for w in wl if issubclass(w.category, RuntimeWarning) and "could not be reached" in str(w.message)]
    return model, con, msgs


def hdc_region(con, alpha):
    """the enclosed region as the real code determines it: real cell_averaged_joint_pdf, real cumsum_biggest_until.

    returns density f (cell averaged), cell_prob, mask (bool), reached (False: the RuntimeWarning path)"""
    from virocon import HighestDensityContour

    centers = con.cell_center_coordinates
    f = np.array(con.cell_averaged_joint_pdf(centers), dtype=float)
    cell_prob = f.copy()
    for d in con.deltas:
        cell_prob *= d
    reached = True
    with warnings.catch_warnings():
        warnings.simplefilter("error")
        try:
            m, last = HighestDensityContour.cumsum_biggest_until(cell_prob, 1 - alpha)
        except RuntimeWarning:
            reached = False
            m, last = np.ones_like(cell_prob), 0.0
    return f, cell_prob, np.asarray(m) > 0.5, reached, float(last)


def hdc_independent_cell_prob(recipe, centers, deltas):
    """documented cell probability  prod_d [F_d(c + delta_d/2 | g) - F_d(c - delta_d/2 | g)],  g = centre of the conditioning cell,
    from the recipe only: family cdfs with explicitly evaluated dependence functions, vectorised over the conditioning axis
    (no ConditionalDistribution, no loop over conditioning values - a different route than the code under test)."""
    n_dim = len(centers)
    shape = [len(c) for c in centers]
    out = np.ones(shape)
    for d, spec in enumerate(recipe["dims"]):
        fam = FAMILIES[spec["family"]]()
        x = np.asarray(centers[d], dtype=float)
        dx = float(deltas[d])
        if spec.get("cond") is None:
            pars = {k: float(v) for k, v in spec["params"].items()}
            p = np.asarray(fam.cdf(x + 0.5 * dx, **pars)) - np.asarray(fam.cdf(x - 0.5 * dx, **pars))
            sh = [1] * n_dim
            sh[d] = len(x)
            out = out * p.reshape(sh)
        else:
            c = int(spec["cond"])
            g = np.asarray(centers[c], dtype=float)[:, None]
            pars = {k: float(v) * np.ones_like(g) for k, v in spec.get("fixed", {}).items()}
            for k, ds in spec["dep"].items():
                pars[k] = eval_dep_spec(ds, g, spec["dep"])
            p = np.asarray(fam.cdf(x[None, :] + 0.5 * dx, **pars)) - np.asarray(fam.cdf(x[None, :] - 0.5 * dx, **pars))  # (n_c, n_d)
            sh = [1] * n_dim
            sh[c] = len(g)
            sh[d] = len(x)
            p = p if c < d else p.T
            out = out * p.reshape(sh)
    return out


def boundary_mask(region):
    """region cells with at least one of the 3^n - 1 neighbours outside the region or outside the grid (plain numpy)."""
    n = region.ndim
    pad = np.pad(region, 1, mode="constant", constant_values=False)
    all_in = np.ones(region.shape, dtype=bool)
    core = tuple(slice(1, -1) for _ in range(n))
    for off in itertools.product((-1, 0, 1), repeat=n):
        if not any(off):
            continue
        sl = tuple(slice(1 + o, pad.shape[i] - 1 + o) for i, o in enumerate(off))
        all_in &= pad[sl]
    _ = core
    return region & ~all_in


def components(mask):
    """connected components (3^n neighbourhood) of a boolean array; returns list of index arrays (k, n_dim)."""
    from scipy import ndimage

    lab, n = ndimage.label(mask, structure=np.ones((3,) * mask.ndim, dtype=bool))
    return [np.argwhere(lab == i) for i in range(1, n + 1)]


def fsum(a):
    a = np.asarray(a, dtype=float).ravel()
    if a.size > 5_000_000:  # exact summation of tens of millions of python floats is too slow: extended precision pairwise sum
        return float(np.sum(a, dtype=np.longdouble))
    return math.fsum(a.tolist())


def _sig(x, n=3):
    if x == 0:
        return 0.0
    return float(f"{x:.{n}g}")


def hdc_gen_scenarios(tier, seed, purpose):
    """seeded HDC scenarios (json-able).  purpose "C02" or "C15" only changes the mix."""
    from virocon import ISORMContour

    rng = np.random.default_rng(seed)
    scen = []

    def bbox(recipe, alpha):
        model = build_model(recipe)
        n_dim = len(recipe["dims"])
        a = max(alpha / 30.0, 1e-9)
        X = ISORMContour(model, a, n_points=40 if n_dim == 2 else 60).coordinates
        lo, hi = X.min(axis=0), X.max(axis=0)
        out = []
        for d, spec in enumerate(recipe["dims"]):
            span = hi[d] - lo[d]
            if spec["family"] in NONNEG and lo[d] - 0.1 * span < 0:
                l = 0.0
            else:
                l = lo[d] - 0.1 * span
            out.append([round(float(l), 3), round(float(hi[d] + 0.1 * span), 3)])
        return out

    def add(label, recipe, alpha, cells, limits="explicit", deltas_form="list", limits_form="tuples", iso=False, shrink=None, call="positional"):
        n_dim = len(recipe["dims"])
        sc = {"label": label, "recipe": recipe, "alpha": float(alpha), "global_seed": int(rng.integers(1 << 31)), "call": call}
        box = bbox(recipe, alpha)
        if shrink is not None:  # deliberately too small a grid: the RuntimeWarning path
            box = [[b[0], round(b[0] + shrink * (b[1] - b[0]), 3)] for b in box]
        if limits == "explicit":
            sc["limits"] = box
            sc["limits_form"] = limits_form
        else:
            sc["limits"] = None
        if cells is None:
            sc["deltas"] = None
        else:
            ds = [_sig((box[d][1] - box[d][0]) / cells[d]) for d in range(n_dim)]
            spans = [box[d][1] - box[d][0] for d in range(n_dim)]
            cap = 400 if n_dim == 2 else 120
            if iso and max(spans) / min(spans) * 10 > cap:
                iso = False  # one scalar cell size cannot give >= 10 and <= cap cells on every axis
                sc["label"] = label.replace("-iso", "-aniso")
            if iso:
                # scalar cell size: cells[0] cells on the shortest axis (>= 10), at most cap on the longest
                d_iso = max(min(spans) / max(cells[0], 10), max(spans) / cap)
                sc["deltas"] = _sig(d_iso)
                sc["deltas_form"] = "scalar"
            else:
                sc["deltas"] = ds
                sc["deltas_form"] = deltas_form
        scen.append(sc)

    # ---- seed independent core
    add("core/dnvgl-iso", DNVGL_HS_TZ, 1e-3, [100, 100], iso=True)
    add("core/dnvgl-aniso-x", DNVGL_HS_TZ, 1e-3, [300, 30])
    add("core/dnvgl-aniso-y", DNVGL_HS_TZ, 1e-3, [30, 300], deltas_form="tuple")
    add("core/dnvgl-defaults", DNVGL_HS_TZ, 0.01, None, limits="default")
    add("core/omae-vhs-default-limits", OMAE_V_HS, 1e-2, [120, 90], limits="default", deltas_form="ndarray")
    add("core/bimodal", BIMODAL_2D, 0.25, [200, 200], iso=True)
    add("core/bimodal-aniso", BIMODAL_2D, 0.25, [250, 100])
    # two regions that are parallel diagonal bands: the bounding box of each contains cells of the other
    scen.append({"label": "core/bimodal-diagonal-bands", "recipe": BIMODAL_DIAGONAL_2D, "alpha": 0.2, "global_seed": 0, "call": "keywords",
                 "limits": [[0.0, 10.0], [-2.0, 15.0]], "limits_form": "lists", "deltas": [0.1, 0.1], "deltas_form": "list"})
    # a secondary region that has only just emerged: one cell (mu = 6.5, alpha = 0.2) / two cells (mu = 6.1, alpha = 0.3)
    for mu_, alpha_ in ((6.5, 0.2), (6.1, 0.3)):
        rec_ = copy.deepcopy(BIMODAL_2D)
        rec_["dims"][0]["params"]["mu"] = mu_
        scen.append({"label": f"core/bimodal-tiny-second-region-{alpha_}", "recipe": rec_, "alpha": alpha_, "global_seed": 0, "call": "keywords",
                     "limits": [[0.0, 12.0], [-6.0, 12.0]], "limits_form": "lists", "deltas": [0.25, 0.25], "deltas_form": "list"})
    add("core/too-small-grid", DNVGL_HS_TZ, 1e-4, [60, 60], shrink=0.35)
    # isotropic grid, region touching the lower grid edge (boundary two cells thick there)
    scen.append({"label": "core/iso-region-at-grid-edge", "recipe": EDGE_2D, "alpha": 4.357466301854152e-06, "global_seed": 0, "call": "keywords",
                 "limits": [[0.0, 27.05], [0.0, 44.671]], "limits_form": "lists", "deltas": 0.118, "deltas_form": "scalar"})
    add("core/3d-iso", HDC_3D_FIXED, 1e-2, [40, 40, 40], iso=True)
    add("core/3d-aniso", HDC_3D_FIXED, 1e-3, [120, 25, 12], deltas_form="tuple", limits_form="lists")
    add("core/alpha-1e-6", OMAE_HS_TZ, 1e-6, [150, 150], limits_form="reversed")
    add("core/alpha-0.3", DNVGL_HS_U, 0.3, [10, 10])

    if tier == "thorough":  # default limits AND default deltas in 3-D: 401^3 cells
        add("thorough/3d-defaults", HDC_3D_FIXED, 0.05, None, limits="default")

    # ---- seeded
    n2, n3 = (30, 12) if tier == "quick" else (300, 90)
    forms = ["list", "tuple", "ndarray"]
    lforms = ["tuples", "lists", "reversed"]
    for i in range(n2):
        cond = [None, 0] if rng.random() < 0.75 else [None, None]
        rec = gen_recipe(rng, cond) if rng.random() < 0.75 else list(FIXED_2D.values())[int(rng.integers(4))]
        alpha = float(10 ** rng.uniform(-6, np.log10(0.3)))
        mode = rng.random()
        big = 400 if tier == "thorough" else 160
        if mode < 0.35:
            c = int(rng.integers(10, big))
            add("random/2d-iso", rec, alpha, [c, c], iso=True, limits_form=lforms[i % 3], call="keywords" if i % 2 else "positional")
        elif mode < 0.8:
            ratio = float(rng.uniform(1.5, 10))
            c = int(rng.integers(10, 60))
            cells = [int(c * ratio), c] if rng.random() < 0.5 else [c, int(c * ratio)]
            add("random/2d-aniso", rec, alpha, cells, deltas_form=forms[i % 3], limits_form=lforms[i % 3])
        elif mode < 0.9:
            add("random/2d-default-limits", rec, max(alpha, 1e-4), [int(rng.integers(20, 150)), int(rng.integers(20, 150))], limits="default")
        else:
            add("random/2d-too-small", rec, alpha, [int(rng.integers(10, 80)), int(rng.integers(10, 80))], shrink=float(rng.uniform(0.2, 0.6)))
    structs3 = structures(3)
    for i in range(n3):
        cond = structs3[(i + int(seed)) % len(structs3)]
        rec = gen_recipe(rng, cond)
        alpha = float(10 ** rng.uniform(-6, np.log10(0.3)))
        if rng.random() < 0.4:
            c = int(rng.integers(10, 50))
            add("random/3d-iso", rec, alpha, [c, c, c], iso=True)
        else:
            cells = [int(v) for v in rng.permutation([int(rng.integers(40, 110)), int(rng.integers(10, 40)), int(rng.integers(10, 25))])]
            add("random/3d-aniso", rec, alpha, cells, deltas_form=forms[i % 3], limits_form=lforms[i % 3])
    _ = purpose
    return scen


__all__ = [n for n in dir() if not n.startswith("__")]
