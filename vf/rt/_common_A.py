"""Shared helpers of the RTC drivers C01, C02, C03, C04, C15 (bounded stand-in, never counted as proved).

* json-able *model recipes* -> real ``virocon.GlobalHierarchicalModel`` objects (``build_model``)
* seeded recipe generator covering the shipped families, every ``conditional_on`` structure with
  ``conditional_on[i] < i`` and a set of dependence-function shapes that keep the parameters admissible
* small bookkeeping class for evaluations / failures
"""
import itertools
import traceback
import zlib

import numpy as np

import virocon
from virocon import (
    DependenceFunction,
    ExponentiatedWeibullDistribution,
    GeneralizedGammaDistribution,
    GlobalHierarchicalModel,
    LogNormalDistribution,
    NormalDistribution,
    VonMisesDistribution,
    WeibullDistribution,
)
from virocon.distributions import LogNormalNormFitDistribution, ScipyDistribution


class GammaDistribution(ScipyDistribution):
    """A ScipyDistribution subclass (the documented way to wrap a scipy family)."""

    scipy_dist_name = "gamma"


FAMILIES = {
    "Weibull": WeibullDistribution,
    "LogNormal": LogNormalDistribution,
    "Normal": NormalDistribution,
    "LogNormalNormFit": LogNormalNormFitDistribution,
    "ExponentiatedWeibull": ExponentiatedWeibullDistribution,
    "GeneralizedGamma": GeneralizedGammaDistribution,
    "VonMises": VonMisesDistribution,
    "ScipyGamma": GammaDistribution,
}

# per family: parameter -> (kind, lo, hi); kind "pos" must stay > 0, "loc" may be any real number.
PARAMS = {
    "Weibull": {"alpha": ("pos", 0.5, 5.0), "beta": ("pos", 0.8, 3.0), "gamma": ("pos", 0.0, 2.0)},
    "LogNormal": {"mu": ("loc", -0.5, 2.0), "sigma": ("pos", 0.1, 0.8)},
    "Normal": {"mu": ("loc", -3.0, 10.0), "sigma": ("pos", 0.3, 3.0)},
    "LogNormalNormFit": {"mu_norm": ("pos", 1.0, 10.0), "sigma_norm": ("pos", 0.3, 3.0)},
    "ExponentiatedWeibull": {"alpha": ("pos", 0.3, 3.0), "beta": ("pos", 0.6, 2.5), "delta": ("pos", 0.5, 6.0)},
    "GeneralizedGamma": {"m": ("pos", 0.5, 4.0), "c": ("pos", 0.5, 3.0), "lambda_": ("pos", 0.2, 3.0)},
    "VonMises": {"kappa": ("pos", 0.3, 5.0), "mu": ("loc", -1.0, 1.0)},
    "ScipyGamma": {"a": ("pos", 0.8, 5.0), "loc": ("pos", 0.0, 1.0), "scale": ("pos", 0.3, 3.0)},
}
NONNEG = {"Weibull", "LogNormal", "LogNormalNormFit", "ExponentiatedWeibull", "GeneralizedGamma", "ScipyGamma"}
FAMILY_NAMES = list(FAMILIES)

# dependence-function shapes.  domain "pos": needs x >= 0; "real": any x.  bounded: value range is bounded.
SHAPES = {
    "power3": dict(domain="pos", bounded=False),
    "exp3": dict(domain="pos", bounded=True),
    "asymdecrease3": dict(domain="pos", bounded=True),
    "lnsquare2": dict(domain="pos", bounded=False),
    "logistics4": dict(domain="real", bounded=True),
    "bump3": dict(domain="real", bounded=True),
    "linear2": dict(domain="real", bounded=False),
    "const1": dict(domain="real", bounded=True),
}


def _mk_power3(a, b, c):
    def _power3(x, a=a, b=b, c=c):
        return a + b * x**c

    return _power3


def _mk_exp3(a, b, c):
    def _exp3(x, a=a, b=b, c=c):
        return a + b * np.exp(c * x)

    return _exp3


def _mk_asymdecrease3(a, b, c):
    def _asymdecrease3(x, a=a, b=b, c=c):
        return a + b / (1 + c * x)

    return _asymdecrease3


def _mk_lnsquare2(a, b):
    def _lnsquare2(x, a=a, b=b):
        return np.log(a + b * np.sqrt(np.divide(x, 9.81)))

    return _lnsquare2


def _mk_logistics4(a, b, c, d):
    def _logistics4(x, a=a, b=b, c=c, d=d):
        return a + b / (1 + np.exp(c * (x - d)))

    return _logistics4


def _mk_bump3(a, b, c, d):
    def _bump3(x, a=a, b=b, c=c, d=d):
        return a + b * np.exp(-(((x - d) / c) ** 2))

    return _bump3


def _mk_linear2(a, b):
    def _linear2(x, a=a, b=b):
        return a + b * x

    return _linear2


def _mk_const1(a):
    def _const1(x, a=a):
        return a + 0.0 * x

    return _const1


_MAKERS = {
    "power3": _mk_power3,
    "exp3": _mk_exp3,
    "asymdecrease3": _mk_asymdecrease3,
    "lnsquare2": _mk_lnsquare2,
    "logistics4": _mk_logistics4,
    "bump3": _mk_bump3,
    "linear2": _mk_linear2,
    "const1": _mk_const1,
}


def _alpha3(x, a, b, c, d_of_x):
    return (a + b * x**c) / 2.0445 ** (1 / d_of_x(x))


def make_dep(spec, siblings=None):
    """spec = {"shape": name, "coef": [...]} -> DependenceFunction with these coefficients as defaults.

    shape "alpha3" is the OMAE2020 V-Hs form whose last argument is the sibling dependence function
    named in spec["of"] (a dependence function depending on another one)."""
    shape = spec["shape"]
    coef = [float(c) for c in spec["coef"]]
    if shape == "alpha3":
        a, b, c = coef

        def _alpha3_fixed(x, a=a, b=b, c=c, d_of_x=None):
            return _alpha3(x, a, b, c, d_of_x)

        return DependenceFunction(_alpha3_fixed, d_of_x=siblings[spec["of"]])
    return DependenceFunction(_MAKERS[shape](*coef))


def eval_dep_spec(spec, x, all_specs=None):
    """independent (numpy only) evaluation of a dependence spec; used by drivers for cross checks."""
    shape = spec["shape"]
    c = [float(v) for v in spec["coef"]]
    x = np.asarray(x, dtype=float)
    if shape == "power3":
        return c[0] + c[1] * x ** c[2]
    if shape == "exp3":
        return c[0] + c[1] * np.exp(c[2] * x)
    if shape == "asymdecrease3":
        return c[0] + c[1] / (1 + c[2] * x)
    if shape == "lnsquare2":
        return np.log(c[0] + c[1] * np.sqrt(x / 9.81))
    if shape == "logistics4":
        return c[0] + c[1] / (1 + np.exp(c[2] * (x - c[3])))
    if shape == "bump3":
        return c[0] + c[1] * np.exp(-(((x - c[3]) / c[2]) ** 2))
    if shape == "linear2":
        return c[0] + c[1] * x
    if shape == "const1":
        return c[0] + 0.0 * x
    if shape == "alpha3":
        return (c[0] + c[1] * x ** c[2]) / 2.0445 ** (1 / eval_dep_spec(all_specs[spec["of"]], x, all_specs))
    raise ValueError(shape)


def build_model(recipe):
    """recipe = {"dims": [ {"family":..,"params":{..}} | {"family":..,"cond":j,"fixed":{..},"dep":{par:spec}} ]}"""
    descs = []
    for d in recipe["dims"]:
        cls = FAMILIES[d["family"]]
        if d.get("cond") is None:
            descs.append({"distribution": cls(**{k: float(v) for k, v in d["params"].items()})})
        else:
            fixed = {f"f_{k}": float(v) for k, v in d.get("fixed", {}).items()}
            deps = {}
            # dependence functions that other ones depend on must exist first
            order = sorted(d["dep"], key=lambda k: 1 if d["dep"][k]["shape"] == "alpha3" else 0)
            for k in order:
                deps[k] = make_dep(d["dep"][k], deps)
            descs.append({"distribution": cls(**fixed), "conditional_on": int(d["cond"]), "parameters": deps})
    return GlobalHierarchicalModel(descs)


def structures(n_dim):
    """all admissible conditional_on lists: entry 0 is None, entry i in {None, 0..i-1}."""
    opts = [[None]] + [[None] + list(range(i)) for i in range(1, n_dim)]
    return [list(t) for t in itertools.product(*opts)]


def struct_id(cond):
    return "".join("N" if c is None else str(c) for c in cond)


# ----------------------------------------------------------------------------------------------
# seeded recipe generator


def _r(rng, lo, hi, nd=4):
    return round(float(rng.uniform(lo, hi)), nd)


def _gen_uncond(rng, family):
    params = {k: _r(rng, lo, hi) for k, (kind, lo, hi) in PARAMS[family].items()}
    return {"family": family, "params": params}


def _gen_dep(rng, kind, lo, hi, x_nonneg, x_light):
    """a dependence spec whose values stay admissible (pos: > 0) on the conditioning variable's support."""
    shapes = ["logistics4", "bump3"]
    if x_nonneg:
        shapes += ["exp3", "asymdecrease3"]
        if x_light:
            shapes += ["power3", "lnsquare2"]
    if kind == "loc" and x_light:
        shapes += ["linear2"]
    shape = shapes[int(rng.integers(len(shapes)))]
    span = hi - lo
    a = _r(rng, lo + 0.05 * span, lo + 0.5 * span)
    b = _r(rng, 0.1 * span, 0.45 * span)
    if shape == "power3":
        c = _r(rng, 0.3, 0.9)
        coef = [a, round(b / 10**c, 5), c]
    elif shape == "exp3":
        coef = [a, b, -_r(rng, 0.05, 0.6)]
    elif shape == "asymdecrease3":
        coef = [a, b, _r(rng, 0.05, 1.0)]
    elif shape == "lnsquare2":
        # ln(a' + b' sqrt(x/g)) >= ln(a') ; choose a' = exp(a) so that value >= a > lo
        coef = [round(float(np.exp(max(a, 0.05))), 5), _r(rng, 0.2, 3.0)]
    elif shape == "logistics4":
        coef = [a, b, _r(rng, 0.2, 2.0) * (-1 if rng.random() < 0.5 else 1), _r(rng, 0.5, 6.0)]
    elif shape == "bump3":
        coef = [a, b, _r(rng, 0.5, 4.0), _r(rng, 0.0, 6.0)]
    elif shape == "linear2":
        coef = [a, _r(rng, -0.3, 0.3)]
    else:
        coef = [a]
    return {"shape": shape, "coef": coef}


def gen_recipe(rng, cond, families=None):
    """random recipe for the conditional_on list `cond`; families may pin the family per dimension."""
    dims = []
    nonneg = []
    light = []
    for i, c in enumerate(cond):
        fam = families[i] if families else FAMILY_NAMES[int(rng.integers(len(FAMILY_NAMES)))]
        if c is None:
            dims.append(_gen_uncond(rng, fam))
            nonneg.append(fam in NONNEG)
            light.append(fam not in ("LogNormal",))
        else:
            names = list(PARAMS[fam])
            k = int(rng.integers(1, len(names) + 1))
            depnames = [names[j] for j in sorted(rng.permutation(len(names))[:k])]
            dep = {}
            fixed = {}
            for name in names:
                kind, lo, hi = PARAMS[fam][name]
                if name in depnames:
                    dep[name] = _gen_dep(rng, kind, lo, hi, nonneg[c], light[c])
                else:
                    fixed[name] = _r(rng, lo, hi)
            dims.append({"family": fam, "cond": int(c), "fixed": fixed, "dep": dep})
            nonneg.append(fam in NONNEG)
            light.append(False)
    return {"dims": dims}


# a few fixed, published / predefined-style recipes -------------------------------------------------

DNVGL_HS_TZ = {
    "dims": [
        {"family": "Weibull", "params": {"alpha": 2.776, "beta": 1.471, "gamma": 0.8888}},
        {
            "family": "LogNormal",
            "cond": 0,
            "fixed": {},
            "dep": {
                "mu": {"shape": "power3", "coef": [0.1, 1.489, 0.1901]},
                "sigma": {"shape": "exp3", "coef": [0.04, 0.1748, -0.2243]},
            },
        },
    ]
}
DNVGL_HS_U = {
    "dims": [
        {"family": "Weibull", "params": {"alpha": 2.776, "beta": 1.471, "gamma": 0.8888}},
        {
            "family": "Weibull",
            "cond": 0,
            "fixed": {"gamma": 0.0},
            "dep": {
                "alpha": {"shape": "power3", "coef": [2.58, 0.12, 1.6]},
                "beta": {"shape": "power3", "coef": [4.6, 2.05, 0.0]},
            },
        },
    ]
}
OMAE_HS_TZ = {
    "dims": [
        {"family": "ExponentiatedWeibull", "params": {"alpha": 0.207, "beta": 0.684, "delta": 7.79}},
        {
            "family": "LogNormal",
            "cond": 0,
            "fixed": {},
            "dep": {
                "mu": {"shape": "lnsquare2", "coef": [3.62, 5.77]},
                "sigma": {"shape": "asymdecrease3", "coef": [0.0, 0.324, 0.404]},
            },
        },
    ]
}
OMAE_V_HS = {
    "dims": [
        {"family": "ExponentiatedWeibull", "params": {"alpha": 10.0, "beta": 2.42, "delta": 0.761}},
        {
            "family": "ExponentiatedWeibull",
            "cond": 0,
            "fixed": {"delta": 5.0},
            "dep": {
                "alpha": {"shape": "alpha3", "coef": [0.488, 0.0114, 2.03], "of": "beta"},
                "beta": {"shape": "logistics4", "coef": [0.714, 1.70, -0.304, 8.77]},
            },
        },
    ]
}
FIXED_2D = {"dnvgl_hs_tz": DNVGL_HS_TZ, "dnvgl_hs_u": DNVGL_HS_U, "omae_hs_tz": OMAE_HS_TZ, "omae_v_hs": OMAE_V_HS}


# ----------------------------------------------------------------------------------------------


def sub_seed(seed, *tags):
    """deterministic 32 bit seed from the run seed and stable tags (not python's randomised hash)."""
    s = repr((int(seed),) + tuple(str(t) for t in tags)).encode()
    return zlib.crc32(s) & 0x7FFFFFFF


def last_tb_line():
    return traceback.format_exc().strip().splitlines()[-1]


class Book:
    """evaluation / failure bookkeeping of one run."""

    def __init__(self):
        self.evaluations = 0
        self.failures = []
        self._seen = {}
        self.keys = set()
        self.samples = []
        self.per_group = {}

    def ev(self, group, ok, case, clause, detail, inputs):
        """one predicate evaluation on the real code; records a failure (first per case id) if not ok."""
        self.evaluations += 1
        self.per_group[group] = self.per_group.get(group, 0) + 1
        if not ok:
            if case in self._seen:
                self._seen[case]["occurrences"] += 1
            else:
                f = {"case": case, "clause": clause, "detail": str(detail)[:600], "inputs": inputs, "occurrences": 1}
                self._seen[case] = f
                self.failures.append(f)
        return bool(ok)

    def count(self, group, n):
        """n passed evaluations at once (vectorised predicate)"""
        self.evaluations += int(n)
        self.per_group[group] = self.per_group.get(group, 0) + int(n)

    def nontrivial(self, key):
        self.keys.add(key)

    def sample(self, s, limit=6):
        if len(self.samples) < limit:
            self.samples.append(s)


def jsonable(o):
    if isinstance(o, dict):
        return {str(k): jsonable(v) for k, v in o.items()}
    if isinstance(o, (list, tuple)):
        return [jsonable(v) for v in o]
    if isinstance(o, np.ndarray):
        return jsonable(o.tolist())
    if isinstance(o, (np.floating,)):
        return float(o)
    if isinstance(o, (np.integer,)):
        return int(o)
    if isinstance(o, (np.bool_,)):
        return bool(o)
    return o


__all__ = [n for n in dir() if not n.startswith("__")]
_ = virocon
