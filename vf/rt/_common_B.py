"""Shared helpers of the RTC drivers C05, C07, C08, C11, C12, C13 (bounded stand-in, never counted as proved).

* ``Recorder``            - counts predicate evaluations, collects failures (deduplicated on the stable case id),
                            distinct scenario keys, samples and the 'bounded' table.
* ``FAM``                 - the distribution families of virocon with an INDEPENDENT reference implementation of
                            the documented formula (numpy / scipy.special only, no scipy.stats), support,
                            characteristic scale, parameter roles and seeded parameter generators.
* ``dkw_eps``             - distribution-free DKW band at error probability delta.
"""

import math
import time
import traceback

import numpy as np
import scipy.special as sp
import scipy.stats as _sts

from virocon import (
    WeibullDistribution,
    LogNormalDistribution,
    NormalDistribution,
    ExponentiatedWeibullDistribution,
    GeneralizedGammaDistribution,
    VonMisesDistribution,
    ScipyDistribution,
)
from virocon.distributions import LogNormalNormFitDistribution

DELTA = 1e-12  # error probability per statistical comparison
TWO_PI = 2 * math.pi


# --------------------------------------------------------------------------------------------------------------
# bookkeeping
# --------------------------------------------------------------------------------------------------------------
def jsonable(o):
    if isinstance(o, dict):
        return {str(k): jsonable(v) for k, v in o.items()}
    if isinstance(o, (list, tuple)):
        return [jsonable(v) for v in o]
    if isinstance(o, np.ndarray):
        return [jsonable(v) for v in o.tolist()]
    if isinstance(o, (np.floating,)):
        return float(o)
    if isinstance(o, (np.integer,)):
        return int(o)
    if isinstance(o, (np.bool_,)):
        return bool(o)
    return o


def last_line(exc):
    return traceback.format_exception_only(type(exc), exc)[-1].strip()


class Recorder:
    def __init__(self):
        self.evaluations = 0
        self.failures = []
        self._failed_cases = {}
        self.keys = set()
        self.samples = []
        self.groups = {}  # what -> dict(bound, rule, evaluations)
        self._group = None
        self.t0 = time.time()

    def group(self, what, bound, rule):
        self._group = what
        self.groups.setdefault(what, {"what": what, "bound": bound, "evaluations": 0, "rule": rule})

    def key(self, k, nontrivial=True):
        """register a scenario key; only non-degenerate inputs are counted as distinct non-trivial cases"""
        if nontrivial:
            self.keys.add(k)

    def check(self, ok, case, clause, detail, inputs):
        """one predicate evaluation on the real code"""
        self.evaluations += 1
        if self._group is not None:
            self.groups[self._group]["evaluations"] += 1
        ok = bool(ok)
        if not ok:
            if case in self._failed_cases:
                self._failed_cases[case]["count"] += 1
            else:
                f = {"case": case, "clause": clause, "detail": (detail() if callable(detail) else str(detail))[:600],
                     "inputs": jsonable(inputs), "count": 1}
                self._failed_cases[case] = f
                self.failures.append(f)
        return ok

    def sample(self, s):
        if len(self.samples) < 8:
            self.samples.append(jsonable(s))

    def result(self):
        return {
            "evaluations": int(self.evaluations),
            "distinct_nontrivial": int(len(self.keys)),
            "failures": self.failures,
            "bounded": list(self.groups.values()),
            "samples": self.samples,
            "wall_s": round(time.time() - self.t0, 2),
        }


def replay_with(scenarios, doc):
    """generic replay: run the scenario named in doc['inputs']['kind'] again; True iff doc['case'] holds now"""
    inp = doc["inputs"]
    rec = Recorder()
    scenarios[inp["kind"]](inp, rec)
    return not any(f["case"] == doc["case"] for f in rec.failures)


def dkw_eps(n, delta=DELTA):
    return math.sqrt(math.log(2.0 / delta) / (2.0 * n))


def ks_stat(u):
    """sup |F_n(t) - t| for a sample u of supposedly uniform(0,1) values"""
    u = np.sort(np.asarray(u, dtype=float))
    n = len(u)
    i = np.arange(1, n + 1)
    return float(max(np.max(i / n - u), np.max(u - (i - 1) / n)))


def close(a, b, rtol, atol=0.0):
    """element-wise |a-b| <= atol + rtol*|b| with NaN==NaN, inf==inf; returns (ok, worst index, worst excess)"""
    a = np.atleast_1d(np.asarray(a, dtype=float))
    b = np.atleast_1d(np.asarray(b, dtype=float))
    if a.shape != b.shape:
        return False, -1, float("inf")
    same = (a == b) | (np.isnan(a) & np.isnan(b))
    with np.errstate(invalid="ignore", over="ignore"):
        err = np.abs(a - b)
        tol = atol + rtol * np.abs(b)
        bad = ~same & ~(err <= tol)
    if not bad.any():
        return True, -1, 0.0
    j = int(np.argmax(bad))
    return False, j, float(err[j]) if np.isfinite(err[j]) else float("inf")


def bit_equal(a, b):
    a = np.asarray(a)
    b = np.asarray(b)
    return a.shape == b.shape and bool(np.array_equal(a, b, equal_nan=True))


# --------------------------------------------------------------------------------------------------------------
# ScipyDistribution subclasses used as "ScipyDistribution subclasses" of the quantifier
# --------------------------------------------------------------------------------------------------------------
class SciWeibullMin(ScipyDistribution):
    scipy_dist_name = "weibull_min"  # parameters c, loc, scale


class SciGamma(ScipyDistribution):
    scipy_dist_name = "gamma"  # parameters a, loc, scale


class SciGumbel(ScipyDistribution):
    scipy_dist = _sts.gumbel_r  # parameters loc, scale (by object, not by name)


# --------------------------------------------------------------------------------------------------------------
# independent reference formulas (documented parameterisation)
# --------------------------------------------------------------------------------------------------------------
def _arr(x):
    return np.asarray(x, dtype=float)


def _weib_cdf(x, alpha, beta, gamma=0.0):
    z = (_arr(x) - gamma) / alpha
    with np.errstate(invalid="ignore", over="ignore"):
        return np.where(z > 0, -np.expm1(-np.power(np.where(z > 0, z, 1.0), beta)), 0.0)


def _weib_pdf(x, alpha, beta, gamma=0.0):
    z = (_arr(x) - gamma) / alpha
    zz = np.where(z > 0, z, 1.0)
    with np.errstate(invalid="ignore", over="ignore", divide="ignore"):
        f = beta / alpha * np.exp((beta - 1) * np.log(zz) - np.power(zz, beta))
    return np.where(z > 0, f, 0.0)


def _weib_icdf(p, alpha, beta, gamma=0.0):
    return gamma + alpha * np.power(-np.log1p(-_arr(p)), 1.0 / beta)


def _logn_cdf(x, mu, sigma):
    x = _arr(x)
    xx = np.where(x > 0, x, 1.0)
    return np.where(x > 0, sp.ndtr((np.log(xx) - mu) / sigma), 0.0)


def _logn_pdf(x, mu, sigma):
    x = _arr(x)
    xx = np.where(x > 0, x, 1.0)
    z = (np.log(xx) - mu) / sigma
    with np.errstate(over="ignore", under="ignore"):
        f = np.exp(-0.5 * z * z - np.log(xx) - np.log(sigma) - 0.5 * math.log(TWO_PI))
    return np.where(x > 0, f, 0.0)


def _logn_icdf(p, mu, sigma):
    return np.exp(mu + sigma * sp.ndtri(_arr(p)))


def _norm_cdf(x, mu, sigma):
    return sp.ndtr((_arr(x) - mu) / sigma)


def _norm_pdf(x, mu, sigma):
    z = (_arr(x) - mu) / sigma
    return np.exp(-0.5 * z * z) / (np.asarray(sigma, dtype=float) * math.sqrt(TWO_PI))


def _norm_icdf(p, mu, sigma):
    return mu + sigma * sp.ndtri(_arr(p))


def lnnf_log_params(mu_norm, sigma_norm):
    """log-normal with mean mu_norm and standard deviation sigma_norm: mean = exp(mu+s2/2), var = (exp(s2)-1) mean^2"""
    s2 = np.log1p((np.asarray(sigma_norm, dtype=float) / mu_norm) ** 2)
    return np.log(mu_norm) - 0.5 * s2, np.sqrt(s2)


def _ew_cdf(x, alpha, beta, delta):
    x = _arr(x)
    xx = np.where(x > 0, x, 1.0)
    with np.errstate(over="ignore", under="ignore", divide="ignore"):
        base = -np.expm1(-np.power(xx / alpha, beta))
        return np.where(x > 0, np.power(base, delta), 0.0)


def _ew_pdf(x, alpha, beta, delta):
    x = _arr(x)
    xx = np.where(x > 0, x, 1.0)
    with np.errstate(over="ignore", under="ignore", divide="ignore", invalid="ignore"):
        w = np.power(xx / alpha, beta)
        logf = (np.log(delta) + np.log(beta) - np.log(alpha) + (beta - 1) * np.log(xx / alpha)
                + (delta - 1) * np.log(-np.expm1(-w)) - w)
        f = np.exp(logf)
    return np.where(x > 0, f, 0.0)


def _ew_icdf(p, alpha, beta, delta):
    p = _arr(p)
    with np.errstate(divide="ignore"):
        return alpha * np.power(-np.log1p(-np.power(p, 1.0 / delta)), 1.0 / beta)


def _gg_cdf(x, m, c, lambda_):
    x = _arr(x)
    xx = np.where(x > 0, x, 1.0)
    with np.errstate(over="ignore"):
        return np.where(x > 0, sp.gammainc(m, np.power(lambda_ * xx, c)), 0.0)


def _gg_pdf(x, m, c, lambda_):
    x = _arr(x)
    xx = np.where(x > 0, x, 1.0)
    with np.errstate(over="ignore", under="ignore"):
        logf = (c * m * np.log(lambda_) + np.log(c) + (c * m - 1) * np.log(xx) - np.power(lambda_ * xx, c)
                - sp.gammaln(m))
        f = np.exp(logf)
    return np.where(x > 0, f, 0.0)


def _gg_icdf(p, m, c, lambda_):
    return np.power(sp.gammaincinv(m, _arr(p)), 1.0 / c) / lambda_


def _vm_pdf(x, kappa, mu):
    # exp(kappa cos(x-mu)) / (2 pi I0(kappa)), periodic
    return np.exp(kappa * (np.cos(_arr(x) - mu) - 1.0)) / (TWO_PI * sp.i0e(kappa))


def _vm_cdf(x, kappa, mu):
    """on [mu-pi, mu+pi]: 1/2 + t/(2pi) + (1/pi) sum_j I_j(k)/I_0(k) sin(j t)/j  (Mardia & Jupp 3.5.30)"""
    t = _arr(x) - mu
    j = np.arange(1, 400)
    r = sp.ive(j, kappa) / sp.ive(0, kappa)
    s = np.sum(r[None, :] * np.sin(np.multiply.outer(np.atleast_1d(t), j)) / j[None, :], axis=1)
    out = 0.5 + np.atleast_1d(t) / TWO_PI + s / math.pi
    return out.reshape(np.shape(t))


def _gamma_cdf(x, a, loc, scale):
    z = (_arr(x) - loc) / scale
    return np.where(z > 0, sp.gammainc(a, np.where(z > 0, z, 1.0)), 0.0)


def _gamma_pdf(x, a, loc, scale):
    z = (_arr(x) - loc) / scale
    zz = np.where(z > 0, z, 1.0)
    with np.errstate(over="ignore", under="ignore"):
        f = np.exp((a - 1) * np.log(zz) - zz - sp.gammaln(a)) / scale
    return np.where(z > 0, f, 0.0)


def _gamma_icdf(p, a, loc, scale):
    return loc + scale * sp.gammaincinv(a, _arr(p))


def _gumbel_cdf(x, loc, scale):
    return np.exp(-np.exp(-(_arr(x) - loc) / scale))


def _gumbel_pdf(x, loc, scale):
    z = (_arr(x) - loc) / scale
    with np.errstate(over="ignore", under="ignore"):
        return np.exp(-z - np.exp(-z)) / scale


def _gumbel_icdf(p, loc, scale):
    return loc - scale * np.log(-np.log(_arr(p)))


def _lu(rng, lo, hi):
    """log-uniform"""
    return float(10 ** rng.uniform(math.log10(lo), math.log10(hi)))


class Family:
    """name, class, parameter names, reference functions and generators"""

    def __init__(self, name, cls, pnames, roles, ref_cdf, ref_pdf, ref_icdf, lower, scale, wide, regular, regimes,
                 admissible, circular=False, positive=True):
        self.name = name
        self.cls = cls
        self.pnames = pnames
        self.roles = roles  # pname -> scale | loc | shape | logscale | invscale
        self._cdf, self._pdf, self._icdf = ref_cdf, ref_pdf, ref_icdf
        self._lower = lower
        self._scale = scale
        self.wide = wide  # rng -> theta (several orders of magnitude, C05/C08)
        self.regular = regular  # rng -> theta (regular region, metocean magnitudes, C07/C11/C12)
        self.regimes = regimes  # list of (label, theta) fixed grid
        self._adm = admissible
        self.circular = circular
        self.positive = positive  # support is (a subset of) the positive half line (for gamma = 0)

    def make(self, theta=None, **kw):
        th = dict(theta or {})
        th.update(kw)
        return self.cls(**th)

    def ref_cdf(self, x, th):
        return self._cdf(x, **th)

    def ref_pdf(self, x, th):
        return self._pdf(x, **th)

    def ref_icdf(self, p, th):
        return self._icdf(p, **th)

    def lower(self, th):
        return self._lower(th)

    def scale(self, th):
        return self._scale(th)

    def admissible(self, th):
        try:
            return all(np.isfinite(float(v)) for v in th.values()) and bool(self._adm(th))
        except Exception:
            return False


def _lnnf(f):
    def g(x, mu_norm, sigma_norm):
        mu, s = lnnf_log_params(mu_norm, sigma_norm)
        return f(x, mu, s)

    return g


def _vm_icdf(p, kappa, mu):  # no closed form: bisection on the reference cdf
    p = np.atleast_1d(_arr(p))
    lo = np.full(p.shape, mu - math.pi)
    hi = np.full(p.shape, mu + math.pi)
    for _ in range(60):
        mid = 0.5 * (lo + hi)
        c = _vm_cdf(mid, kappa, mu)
        lo = np.where(c < p, mid, lo)
        hi = np.where(c < p, hi, mid)
    return 0.5 * (lo + hi)


FAM = {}


def _reg(f):
    FAM[f.name] = f


_reg(Family(
    "Weibull", WeibullDistribution, ["alpha", "beta", "gamma"],
    {"alpha": "scale", "beta": "shape", "gamma": "loc"},
    _weib_cdf, _weib_pdf, _weib_icdf,
    lower=lambda th: th["gamma"], scale=lambda th: th["alpha"],
    wide=lambda r: {"alpha": _lu(r, 1e-3, 1e3), "beta": _lu(r, 0.3, 10),
                    "gamma": float(r.choice([0.0, 1.0, -1.0])) * _lu(r, 1e-2, 1e2)},
    regular=lambda r: {"alpha": _lu(r, 0.5, 5), "beta": float(r.uniform(1.2, 3.0)), "gamma": float(r.uniform(0.0, 1.0))},
    regimes=[("a1b1g0", {"alpha": 1.0, "beta": 1.0, "gamma": 0.0}),
             ("small-shape", {"alpha": 2.5, "beta": 0.4, "gamma": 0.0}),
             ("tiny-scale", {"alpha": 2e-3, "beta": 1.7, "gamma": 0.5}),
             ("huge-scale-negloc", {"alpha": 800.0, "beta": 3.5, "gamma": -40.0}),
             ("hs-like", {"alpha": 2.776, "beta": 1.471, "gamma": 0.8888})],
    admissible=lambda th: th["alpha"] > 0 and th["beta"] > 0,
))

_reg(Family(
    "LogNormal", LogNormalDistribution, ["mu", "sigma"], {"mu": "logscale", "sigma": "shape"},
    _logn_cdf, _logn_pdf, _logn_icdf,
    lower=lambda th: 0.0, scale=lambda th: math.exp(th["mu"]),
    wide=lambda r: {"mu": float(r.uniform(-6, 7)), "sigma": _lu(r, 0.03, 3)},
    regular=lambda r: {"mu": float(r.uniform(-0.5, 2.0)), "sigma": float(r.uniform(0.15, 0.8))},
    regimes=[("std", {"mu": 0.0, "sigma": 1.0}), ("narrow", {"mu": 2.0, "sigma": 0.05}),
             ("wide-small", {"mu": -5.0, "sigma": 2.5}), ("tz-like", {"mu": 1.489, "sigma": 0.1901})],
    admissible=lambda th: th["sigma"] > 0,
))

_reg(Family(
    "Normal", NormalDistribution, ["mu", "sigma"], {"mu": "loc", "sigma": "scale"},
    _norm_cdf, _norm_pdf, _norm_icdf,
    lower=lambda th: -math.inf, scale=lambda th: th["sigma"],
    wide=lambda r: {"mu": float(r.choice([0.0, 1.0, -1.0])) * _lu(r, 1e-2, 1e3), "sigma": _lu(r, 1e-3, 1e3)},
    regular=lambda r: {"mu": float(r.uniform(-3, 8)), "sigma": _lu(r, 0.3, 4)},
    regimes=[("std", {"mu": 0.0, "sigma": 1.0}), ("sigma2", {"mu": 0.0, "sigma": 2.0}),
             ("shifted-narrow", {"mu": -12.0, "sigma": 0.004}), ("wide", {"mu": 300.0, "sigma": 450.0})],
    admissible=lambda th: th["sigma"] > 0, positive=False,
))

_reg(Family(
    "LogNormalNormFit", LogNormalNormFitDistribution, ["mu_norm", "sigma_norm"],
    {"mu_norm": "scale", "sigma_norm": "scale"},
    _lnnf(_logn_cdf), _lnnf(_logn_pdf), _lnnf(_logn_icdf),
    lower=lambda th: 0.0, scale=lambda th: th["mu_norm"],
    wide=lambda r: (lambda m, q: {"mu_norm": m, "sigma_norm": m * q})(_lu(r, 1e-2, 1e3), _lu(r, 0.03, 3)),
    regular=lambda r: (lambda m, q: {"mu_norm": m, "sigma_norm": m * q})(_lu(r, 0.8, 8), float(r.uniform(0.15, 0.6))),
    regimes=[("m1s1", {"mu_norm": 1.0, "sigma_norm": 1.0}), ("m5s0.3", {"mu_norm": 5.0, "sigma_norm": 0.3}),
             ("m0.02s0.05", {"mu_norm": 0.02, "sigma_norm": 0.05}), ("m700s90", {"mu_norm": 700.0, "sigma_norm": 90.0})],
    admissible=lambda th: th["mu_norm"] > 0 and th["sigma_norm"] > 0,
))

_reg(Family(
    "ExponentiatedWeibull", ExponentiatedWeibullDistribution, ["alpha", "beta", "delta"],
    {"alpha": "scale", "beta": "shape", "delta": "shape"},
    _ew_cdf, _ew_pdf, _ew_icdf,
    lower=lambda th: 0.0, scale=lambda th: th["alpha"],
    wide=lambda r: {"alpha": _lu(r, 1e-3, 1e3), "beta": _lu(r, 0.3, 8), "delta": _lu(r, 0.2, 20)},
    regular=lambda r: {"alpha": _lu(r, 0.3, 5), "beta": float(r.uniform(0.9, 2.5)), "delta": float(r.uniform(0.8, 5))},
    regimes=[("a1b1d1", {"alpha": 1.0, "beta": 1.0, "delta": 1.0}),
             ("omae-hs", {"alpha": 0.207, "beta": 0.684, "delta": 7.79}),
             ("omae-v", {"alpha": 10.0, "beta": 2.42, "delta": 0.761}),
             ("tiny", {"alpha": 3e-3, "beta": 0.45, "delta": 0.3}),
             ("huge", {"alpha": 650.0, "beta": 5.0, "delta": 12.0})],
    admissible=lambda th: th["alpha"] > 0 and th["beta"] > 0 and th["delta"] > 0,
))

_reg(Family(
    "GeneralizedGamma", GeneralizedGammaDistribution, ["m", "c", "lambda_"],
    {"m": "shape", "c": "shape", "lambda_": "invscale"},
    _gg_cdf, _gg_pdf, _gg_icdf,
    lower=lambda th: 0.0, scale=lambda th: 1.0 / th["lambda_"],
    wide=lambda r: {"m": _lu(r, 0.3, 20), "c": _lu(r, 0.3, 5), "lambda_": _lu(r, 1e-3, 1e3)},
    regular=lambda r: {"m": float(r.uniform(1.0, 4.0)), "c": float(r.uniform(0.9, 2.5)), "lambda_": _lu(r, 0.2, 3)},
    regimes=[("m1c1l1", {"m": 1.0, "c": 1.0, "lambda_": 1.0}), ("ochi", {"m": 2.0, "c": 1.5, "lambda_": 0.6}),
             ("small-m", {"m": 0.35, "c": 0.6, "lambda_": 120.0}), ("big-m", {"m": 15.0, "c": 3.0, "lambda_": 2e-3})],
    admissible=lambda th: th["m"] > 0 and th["c"] > 0 and th["lambda_"] > 0,
))

_reg(Family(
    "VonMises", VonMisesDistribution, ["kappa", "mu"], {"kappa": "shape", "mu": "loc"},
    _vm_cdf, _vm_pdf, _vm_icdf,
    lower=lambda th: th["mu"] - math.pi, scale=lambda th: min(math.pi, 1.0 / math.sqrt(th["kappa"])),
    wide=lambda r: {"kappa": _lu(r, 0.1, 50), "mu": float(r.uniform(-3.0, 3.0))},
    regular=lambda r: {"kappa": _lu(r, 0.5, 8), "mu": float(r.uniform(-2.0, 2.0))},
    regimes=[("k1m0", {"kappa": 1.0, "mu": 0.0}), ("flat", {"kappa": 0.15, "mu": 1.0}),
             ("sharp", {"kappa": 40.0, "mu": -2.0}), ("k3m0.5", {"kappa": 3.0, "mu": 0.5})],
    admissible=lambda th: th["kappa"] > 0, circular=True, positive=False,
))

_reg(Family(
    "Scipy:weibull_min", SciWeibullMin, ["c", "loc", "scale"], {"c": "shape", "loc": "loc", "scale": "scale"},
    lambda x, c, loc, scale: _weib_cdf(x, scale, c, loc), lambda x, c, loc, scale: _weib_pdf(x, scale, c, loc),
    lambda p, c, loc, scale: _weib_icdf(p, scale, c, loc),
    lower=lambda th: th["loc"], scale=lambda th: th["scale"],
    wide=lambda r: {"c": _lu(r, 0.3, 10), "loc": float(r.choice([0.0, 1.0, -1.0])) * _lu(r, 1e-2, 1e2),
                    "scale": _lu(r, 1e-3, 1e3)},
    regular=lambda r: {"c": float(r.uniform(1.2, 3.0)), "loc": float(r.uniform(0.0, 1.0)), "scale": _lu(r, 0.5, 5)},
    regimes=[("c1", {"c": 1.0, "loc": 0.0, "scale": 1.0}), ("c2.2", {"c": 2.2, "loc": 0.7, "scale": 3.0})],
    admissible=lambda th: th["c"] > 0 and th["scale"] > 0,
))

_reg(Family(
    "Scipy:gamma", SciGamma, ["a", "loc", "scale"], {"a": "shape", "loc": "loc", "scale": "scale"},
    _gamma_cdf, _gamma_pdf, _gamma_icdf,
    lower=lambda th: th["loc"], scale=lambda th: th["scale"] * max(1.0, th["a"]),
    wide=lambda r: {"a": _lu(r, 0.3, 30), "loc": float(r.choice([0.0, 1.0, -1.0])) * _lu(r, 1e-2, 1e2),
                    "scale": _lu(r, 1e-3, 1e3)},
    regular=lambda r: {"a": float(r.uniform(1.5, 6.0)), "loc": float(r.uniform(0.0, 1.0)), "scale": _lu(r, 0.3, 3)},
    regimes=[("a1", {"a": 1.0, "loc": 0.0, "scale": 1.0}), ("a3.5", {"a": 3.5, "loc": -2.0, "scale": 0.25})],
    admissible=lambda th: th["a"] > 0 and th["scale"] > 0,
))

_reg(Family(
    "Scipy:gumbel_r", SciGumbel, ["loc", "scale"], {"loc": "loc", "scale": "scale"},
    _gumbel_cdf, _gumbel_pdf, _gumbel_icdf,
    lower=lambda th: -math.inf, scale=lambda th: th["scale"],
    wide=lambda r: {"loc": float(r.choice([0.0, 1.0, -1.0])) * _lu(r, 1e-2, 1e3), "scale": _lu(r, 1e-3, 1e3)},
    regular=lambda r: {"loc": float(r.uniform(0, 8)), "scale": _lu(r, 0.3, 4)},
    regimes=[("std", {"loc": 0.0, "scale": 1.0}), ("l25s3", {"loc": 25.0, "scale": 3.0})],
    admissible=lambda th: th["scale"] > 0, positive=False,
))

NAMED = ["Weibull", "LogNormal", "Normal", "LogNormalNormFit", "ExponentiatedWeibull", "GeneralizedGamma", "VonMises"]
SCIPY = ["Scipy:weibull_min", "Scipy:gamma", "Scipy:gumbel_r"]
ALL = NAMED + SCIPY


def wrap_circular(x, mu):
    """representative of x modulo 2 pi in [mu - pi, mu + pi)"""
    return (np.asarray(x, dtype=float) - mu + math.pi) % TWO_PI - math.pi + mu


def loglik(fam, data, th):
    """sum log pdf of the REFERENCE formula (independent of virocon)"""
    with np.errstate(divide="ignore"):
        return float(np.sum(np.log(fam.ref_pdf(data, th))))


# --------------------------------------------------------------------------------------------------------------
# json-able specifications of dependence functions, conditional distributions and hierarchical models
# --------------------------------------------------------------------------------------------------------------
def _power3(x, a, b, c):
    return a + b * x ** c


def _exp3(x, a, b, c):
    return a + b * np.exp(c * x)


def _lnsquare2(x, a, b):
    return np.log(a + b * np.sqrt(x / 9.81))


def _lin2(x, a, b):
    return a + b * x


def _bump3(x, a, b, c):
    return a + b * np.exp(-c * x * x)


def _sin3(x, a, b, c):
    return a + b * np.sin(x - c)


def _logistics4(x, a, b, c, d):
    return a + b / (1 + np.exp(c * (x - d)))


def _asymdecrease3(x, a, b, c):
    return a + b / (1 + c * x)


def _alpha3(x, a, b, c, d_of_x):  # chained: takes another dependence function (OMAE2020 V-Hs model)
    return (a + b * x ** c) / 2.0445 ** (1 / d_of_x(x))


def _scaled2(x, a, b, other):  # chained: a + b * other(x)
    return a + b * other(x)


def _const1(x, a):
    return a + 0 * x


DEPF = {"power3": _power3, "exp3": _exp3, "lnsquare2": _lnsquare2, "lin2": _lin2, "bump3": _bump3, "sin3": _sin3,
        "logistics4": _logistics4, "asymdecrease3": _asymdecrease3, "alpha3": _alpha3, "scaled2": _scaled2,
        "const1": _const1}


def plain_dep(spec, g, siblings):
    """value of the dependence function described by `spec` at g, computed WITHOUT virocon.
    spec = {"f": name, "p": [coefficients], "chain": {"argname": "@param" | spec}}"""
    f = DEPF[spec["f"]]
    kw = {}
    for arg, inner in (spec.get("chain") or {}).items():
        inner_spec = siblings[inner[1:]] if isinstance(inner, str) else inner
        kw[arg] = (lambda isp: (lambda t: plain_dep(isp, t, siblings)))(inner_spec)
    return f(g, *spec["p"], **kw)


def plain_params(dspec, g):
    """effective parameter values of the conditional distribution described by dspec at conditioning value(s) g"""
    fam = FAM[dspec["family"]]
    out = {}
    for pn in fam.pnames:
        if pn in dspec.get("dep", {}):
            out[pn] = plain_dep(dspec["dep"][pn], g, dspec["dep"])
        else:
            out[pn] = dspec["fixed"][pn]
    return out


def _with_defaults(f, vals):
    import types

    return types.FunctionType(f.__code__, f.__globals__, f.__name__, tuple(vals), f.__closure__)


def build_deps(dep_specs):
    """DependenceFunction objects for {param: spec}; '@param' chains share the sibling's object"""
    from virocon import DependenceFunction

    built = {}

    def build(pn, spec):
        if pn is not None and pn in built:
            return built[pn]
        kw = {}
        for arg, inner in (spec.get("chain") or {}).items():
            kw[arg] = build(inner[1:], dep_specs[inner[1:]]) if isinstance(inner, str) else build(None, inner)
        f = DEPF[spec["f"]]
        mode = spec.get("mode", "assign")
        if mode == "defaults" and not kw:
            d = DependenceFunction(_with_defaults(f, spec["p"]))  # coefficients read from the signature defaults
        elif mode == "unit":
            d = DependenceFunction(f, **kw)  # no defaults in the signature: every coefficient is 1 (documented)
        else:
            d = DependenceFunction(f, **kw)
            d.parameters = dict(zip(d.parameters.keys(), [float(v) for v in spec["p"]]))  # as DependenceFunction._fit does
        if pn is not None:
            built[pn] = d
        return d

    for pn, spec in dep_specs.items():
        build(pn, spec)
    return built


def build_template(dspec):
    fam = FAM[dspec["family"]]
    return fam.cls(**{f"f_{k}": v for k, v in dspec.get("fixed", {}).items()})


def build_conditional(dspec):
    from virocon.distributions import ConditionalDistribution

    return ConditionalDistribution(build_template(dspec), build_deps(dspec["dep"]))


def build_model(specs):
    """GlobalHierarchicalModel from a list of dimension specs:
    unconditional {"family", "theta"}; conditional {"family", "cond", "fixed", "dep"}"""
    from virocon import GlobalHierarchicalModel

    descs = []
    for sp_ in specs:
        if sp_.get("cond") is None:
            descs.append({"distribution": FAM[sp_["family"]].make(sp_["theta"])})
        else:
            descs.append({"distribution": build_template(sp_), "conditional_on": sp_["cond"], "parameters": build_deps(sp_["dep"])})
    return GlobalHierarchicalModel(descs)


def ref_cdf_dim(spec, x, given=None):
    """reference cdf of one model dimension (formula with the plain parameter values)"""
    fam = FAM[spec["family"]]
    th = spec["theta"] if spec.get("cond") is None else plain_params(spec, given)
    if fam.circular:
        x = wrap_circular(x, th["mu"])
    return fam.ref_cdf(x, th)


# model library: every admissible 2-D / 3-D dependence structure, every family as conditional template at least once
W_HS = {"alpha": 2.776, "beta": 1.471, "gamma": 0.8888}

MODELS = {
    # ---- 2-D, every admissible structure: (None, None), (None, 0) ------------------------------------------
    "2d(N,N):Normal,VonMises": [
        {"family": "Normal", "theta": {"mu": 3.0, "sigma": 2.0}},
        {"family": "VonMises", "theta": {"kappa": 2.0, "mu": 0.5}}],
    "2d(N,0):Weibull>LogNormal": [
        {"family": "Weibull", "theta": W_HS},
        {"family": "LogNormal", "cond": 0, "fixed": {},
         "dep": {"mu": {"f": "power3", "p": [0.7, 1.27, 0.131], "mode": "defaults"}, "sigma": {"f": "exp3", "p": [0.1, 0.3, -0.3]}}}],
    "2d(N,0):EW>EW-chained": [
        {"family": "ExponentiatedWeibull", "theta": {"alpha": 10.0, "beta": 2.42, "delta": 0.761}},
        {"family": "ExponentiatedWeibull", "cond": 0, "fixed": {"delta": 5.0},
         "dep": {"alpha": {"f": "alpha3", "p": [0.488, 0.0114, 2.03], "chain": {"d_of_x": "@beta"}},
                 "beta": {"f": "logistics4", "p": [0.714, 1.70, -0.304, 8.77], "mode": "defaults"}}}],
    "2d(N,0):VonMises>Weibull": [
        {"family": "VonMises", "theta": {"kappa": 1.5, "mu": 0.3}},
        {"family": "Weibull", "cond": 0, "fixed": {"beta": 2.0, "gamma": 0.0}, "dep": {"alpha": {"f": "sin3", "p": [2.0, 0.8, 0.0]}}}],
    "2d(N,0):Normal>GenGamma": [
        {"family": "Normal", "theta": {"mu": 0.0, "sigma": 1.5}},
        {"family": "GeneralizedGamma", "cond": 0, "fixed": {"m": 2.0},
         "dep": {"c": {"f": "bump3", "p": [1.0, 1.0, 0.5]}, "lambda_": {"f": "bump3", "p": [0.5, 1.0, 0.2], "mode": "defaults"}}}],
    "2d(N,0):Weibull>LogNormalNormFit": [
        {"family": "Weibull", "theta": W_HS},
        {"family": "LogNormalNormFit", "cond": 0, "fixed": {},
         "dep": {"mu_norm": {"f": "lin2", "p": [3.0, 1.2]}, "sigma_norm": {"f": "power3", "p": [0.5, 0.2, 1.0]}}}],
    "2d(N,0):LogNormal>Scipy:gamma": [
        {"family": "LogNormal", "theta": {"mu": 0.5, "sigma": 0.4}},
        {"family": "Scipy:gamma", "cond": 0, "fixed": {"loc": 0.0},
         "dep": {"a": {"f": "lin2", "p": [1.5, 0.8]}, "scale": {"f": "asymdecrease3", "p": [0.3, 1.0, 0.5]}}}],
    "2d(N,0):EW>VonMises": [
        {"family": "ExponentiatedWeibull", "theta": {"alpha": 10.0, "beta": 2.42, "delta": 0.761}},
        {"family": "VonMises", "cond": 0, "fixed": {"kappa": 2.0}, "dep": {"mu": {"f": "lin2", "p": [-1.0, 0.1]}}}],
    "2d(N,0):Weibull>Normal": [
        {"family": "Weibull", "theta": W_HS},
        {"family": "Normal", "cond": 0, "fixed": {}, "dep": {"mu": {"f": "lin2", "p": [-2.0, 3.0]}, "sigma": {"f": "power3", "p": [0.3, 0.2, 1.0]}}}],
    # ---- 3-D, every admissible structure (cond[1] in {N,0}, cond[2] in {N,0,1}) ----------------------------
    "3d(N,N,N)": [
        {"family": "Weibull", "theta": W_HS},
        {"family": "LogNormal", "theta": {"mu": 1.5, "sigma": 0.3}},
        {"family": "VonMises", "theta": {"kappa": 3.0, "mu": -1.0}}],
    "3d(N,0,N)": [
        {"family": "Weibull", "theta": W_HS},
        {"family": "LogNormal", "cond": 0, "fixed": {}, "dep": {"mu": {"f": "power3", "p": [0.7, 1.27, 0.131]}, "sigma": {"f": "exp3", "p": [0.1, 0.3, -0.3]}}},
        {"family": "Normal", "theta": {"mu": 10.0, "sigma": 3.0}}],
    "3d(N,N,0)": [
        {"family": "ExponentiatedWeibull", "theta": {"alpha": 1.5, "beta": 1.3, "delta": 2.0}},
        {"family": "Normal", "theta": {"mu": 2.0, "sigma": 1.0}},
        {"family": "LogNormal", "cond": 0, "fixed": {"sigma": 0.25}, "dep": {"mu": {"f": "lnsquare2", "p": [3.0, 6.0]}}}],
    "3d(N,N,1)": [
        {"family": "Weibull", "theta": W_HS},
        {"family": "LogNormal", "theta": {"mu": 2.0, "sigma": 0.3}},
        {"family": "Normal", "cond": 1, "fixed": {}, "dep": {"mu": {"f": "lin2", "p": [1.0, 2.0]}, "sigma": {"f": "power3", "p": [0.2, 0.1, 1.0]}}}],
    "3d(N,0,0)": [
        {"family": "Weibull", "theta": W_HS},
        {"family": "LogNormal", "cond": 0, "fixed": {}, "dep": {"mu": {"f": "power3", "p": [0.7, 1.27, 0.131]}, "sigma": {"f": "exp3", "p": [0.1, 0.3, -0.3]}}},
        {"family": "GeneralizedGamma", "cond": 0, "fixed": {"c": 1.4}, "dep": {"m": {"f": "lin2", "p": [1.0, 0.5]}, "lambda_": {"f": "asymdecrease3", "p": [0.2, 2.0, 0.8]}}}],
    "3d(N,0,1)": [
        {"family": "Weibull", "theta": W_HS},
        {"family": "LogNormal", "cond": 0, "fixed": {}, "dep": {"mu": {"f": "power3", "p": [0.7, 1.27, 0.131]}, "sigma": {"f": "exp3", "p": [0.1, 0.3, -0.3]}}},
        {"family": "ExponentiatedWeibull", "cond": 1, "fixed": {"beta": 1.8, "delta": 2.0}, "dep": {"alpha": {"f": "power3", "p": [0.2, 0.3, 1.0]}}}],
    "3d(N,0,1):Normal-mid": [
        {"family": "Scipy:gumbel_r", "theta": {"loc": 1.0, "scale": 1.5}},
        {"family": "Normal", "cond": 0, "fixed": {"sigma": 0.7}, "dep": {"mu": {"f": "lin2", "p": [0.5, -1.5]}}},
        {"family": "Scipy:weibull_min", "cond": 1, "fixed": {"loc": 0.0, "c": 1.6}, "dep": {"scale": {"f": "bump3", "p": [0.5, 3.0, 0.05]}}}],
}


