"""Shared helpers of the RTC drivers C06, C09, C10, C14, C18 (bounded stand-in, never counted as proved).

Every driver is organised the same way:

* a *scenario* is a json-able dict ``inputs`` (a recipe, never a pickled object);
* ``evaluate(inputs)`` builds the real virocon objects from the recipe, calls the real code and returns a
  list of ``Check`` tuples ``(case, clause, ok, detail)`` - one per predicate evaluation of a property clause;
* ``run`` generates scenarios (fixed anchors + exhaustive grids + seeded random ones), feeds them to
  ``evaluate`` and books the results in a ``Recorder``;
* ``replay(doc)`` re-evaluates ``doc["inputs"]`` and reports whether the checks with ``doc["case"]`` hold now.
"""

import json
import math
import time
import traceback

import numpy as np


class Recorder:
    """Books predicate evaluations; keeps ONE failure (the first) per stable case id plus a hit count."""

    def __init__(self, max_samples=6):
        self.evaluations = 0
        self.keys = set()
        self.extra_distinct = 0
        self.failures = {}
        self.fail_counts = {}
        self.samples = []
        self.max_samples = max_samples
        self.blocks = []
        self._block = None
        self.t0 = time.time()

    # -- blocks ("bounded" entries) -------------------------------------------------------------
    def begin(self, what, bound, rule):
        self._block = {"what": what, "bound": bound, "evaluations": 0, "rule": rule}
        self.blocks.append(self._block)

    # -- bookkeeping ----------------------------------------------------------------------------
    def book(self, checks, inputs, key=None, nontrivial=True, sample=False):
        """checks: list of (case, clause, ok, detail)."""
        n = len(checks)
        self.evaluations += n
        if self._block is not None:
            self._block["evaluations"] += n
        if key is not None and nontrivial and n > 0:
            self.keys.add(key)
        for case, clause, ok, detail in checks:
            if ok:
                continue
            self.fail_counts[case] = self.fail_counts.get(case, 0) + 1
            if case not in self.failures:
                self.failures[case] = {
                    "case": case,
                    "clause": clause,
                    "detail": detail,
                    "inputs": inputs,
                }
        if sample and len(self.samples) < self.max_samples:
            self.samples.append(
                {
                    "inputs": _shorten(inputs),
                    "checks": [
                        {"case": c, "clause": cl, "ok": bool(ok), "detail": d[:160]}
                        for c, cl, ok, d in checks[:6]
                    ],
                }
            )

    def book_summary(self, n_evals, n_distinct, failures, sample=None):
        """pre-aggregated results of a worker: failures = {case: (clause, detail, inputs, count)}; the scenarios of an
        exhaustive enumeration are distinct by construction, so only their number is transferred."""
        self.evaluations += n_evals
        if self._block is not None:
            self._block["evaluations"] += n_evals
        self.extra_distinct += n_distinct
        for case, (clause, detail, inputs, count) in failures.items():
            self.fail_counts[case] = self.fail_counts.get(case, 0) + count
            if case not in self.failures:
                self.failures[case] = {"case": case, "clause": clause, "detail": detail, "inputs": inputs}
        if sample is not None and len(self.samples) < self.max_samples:
            self.samples.append(sample)

    def result(self):
        fails = []
        for case in sorted(self.failures):
            f = dict(self.failures[case])
            f["detail"] = f["detail"] + f" [{self.fail_counts[case]} failing evaluation(s) under this case id]"
            fails.append(f)
        return {
            "evaluations": int(self.evaluations),
            "distinct_nontrivial": int(len(self.keys) + self.extra_distinct),
            "failures": fails,
            "bounded": self.blocks,
            "samples": self.samples,
            "wall_s": round(time.time() - self.t0, 2),
        }


def _shorten(obj, maxlen=24):
    if isinstance(obj, dict):
        return {k: _shorten(v, maxlen) for k, v in obj.items()}
    if isinstance(obj, (list, tuple)):
        if len(obj) > maxlen:
            return [_shorten(v, maxlen) for v in obj[:maxlen]] + [f"... ({len(obj)} entries)"]
        return [_shorten(v, maxlen) for v in obj]
    return obj


def jsonable(obj):
    """numpy -> plain python, recursively."""
    if isinstance(obj, dict):
        return {str(k): jsonable(v) for k, v in obj.items()}
    if isinstance(obj, (list, tuple)):
        return [jsonable(v) for v in obj]
    if isinstance(obj, np.ndarray):
        return jsonable(obj.tolist())
    if isinstance(obj, (np.floating,)):
        return float(obj)
    if isinstance(obj, (np.integer,)):
        return int(obj)
    if isinstance(obj, (np.bool_,)):
        return bool(obj)
    return obj


def last_line(exc=None):
    """last line of the current traceback (or of str(exc))."""
    if exc is not None:
        return f"{type(exc).__name__}: {exc}"[:300]
    return traceback.format_exc().strip().splitlines()[-1][:300]


def dkw_eps(n, delta=1e-12):
    """Dvoretzky-Kiefer-Wolfowitz: P(sup|F_n - F| > eps) <= 2 exp(-2 n eps^2) = delta."""
    return math.sqrt(math.log(2.0 / delta) / (2.0 * n))


def rel_close(a, b, rtol, atol=0.0):
    a = np.asarray(a, dtype=float)
    b = np.asarray(b, dtype=float)
    if a.shape != b.shape:
        return False
    return bool(np.all(np.abs(a - b) <= atol + rtol * np.maximum(np.abs(a), np.abs(b))))


def max_rel(a, b, atol=0.0):
    a = np.asarray(a, dtype=float)
    b = np.asarray(b, dtype=float)
    if a.shape != b.shape:
        return float("inf")
    if a.size == 0:
        return 0.0
    den = np.maximum(np.maximum(np.abs(a), np.abs(b)), atol if atol > 0 else 1e-300)
    return float(np.max(np.abs(a - b) / den))


def replay_with(evaluate, doc):
    """generic replay: True iff every check with the stored case id holds on the current tree."""
    inputs = doc["inputs"]
    case = doc.get("case")
    checks = evaluate(inputs)
    mine = [c for c in checks if c[0] == case]
    if not mine:
        # the scenario no longer produces this case id: judge on all of its checks
        mine = checks
    return all(bool(c[2]) for c in mine)


def dumps(obj):
    return json.dumps(jsonable(obj), sort_keys=True)
