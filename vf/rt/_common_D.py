"""Shared helpers of the RTC drivers C16, C17, C19, C20 (bounded stand-in, never counted as proved).

Only helpers live here: model builders from JSON-able specs, a structural snapshot of object graphs,
distribution-free statistical bounds and small bookkeeping classes.  Nothing in here touches /repo.
"""
import functools
import math
import traceback
import types

import numpy as np

import virocon
from virocon import (
    DependenceFunction,
    ExponentiatedWeibullDistribution,
    GlobalHierarchicalModel,
    LogNormalDistribution,
    NormalDistribution,
    WeibullDistribution,
    WidthOfIntervalSlicer,
)

DELTA = 1e-12  # error probability per statistical comparison


# --------------------------------------------------------------------------- statistics
def dkw_eps(n, delta=DELTA):
    """Dvoretzky-Kiefer-Wolfowitz / Hoeffding half width: P(sup|F_n - F| > eps) <= delta."""
    return math.sqrt(math.log(2.0 / delta) / (2.0 * n))


def ks_distance(sample, cdf):
    """sup_x |F_n(x) - F(x)| of a 1-D sample against an exact continuous cdf (callable on arrays)."""
    xs = np.sort(np.asarray(sample, dtype=float))
    n = len(xs)
    F = np.asarray(cdf(xs), dtype=float)
    up = np.arange(1, n + 1) / n
    lo = np.arange(0, n) / n
    return float(max(np.max(np.abs(F - up)), np.max(np.abs(F - lo))))


# --------------------------------------------------------------------------- bookkeeping
class Tally:
    """Collects evaluations / failures / distinct scenario keys of one run."""

    def __init__(self):
        self.evaluations = 0
        self.failures = []
        self._seen_fail = {}
        self.keys = set()
        self.trivial = 0
        self.groups = {}
        self.samples = []

    def group(self, name, n=1):
        self.groups[name] = self.groups.get(name, 0) + n

    def ok(self, group, n=1):
        self.evaluations += n
        self.group(group, n)

    def check(self, cond, group, case, clause, detail, inputs):
        """one predicate evaluation; records a failure (first one per (case, clause)) when cond is false"""
        self.evaluations += 1
        self.group(group, 1)
        if cond:
            return True
        k = (case, clause)
        if k in self._seen_fail:
            self._seen_fail[k]["more_failures_same_case"] = self._seen_fail[k].get("more_failures_same_case", 0) + 1
        else:
            f = {"case": case, "clause": clause, "detail": str(detail)[:600], "inputs": inputs}
            self._seen_fail[k] = f
            self.failures.append(f)
        return False

    def key(self, k, nontrivial=True):
        if nontrivial:
            self.keys.add(k)
        else:
            self.trivial += 1

    def merge(self, other):
        self.evaluations += other.evaluations
        for f in other.failures:
            k = (f["case"], f["clause"])
            if k in self._seen_fail:
                self._seen_fail[k]["more_failures_same_case"] = self._seen_fail[k].get("more_failures_same_case", 0) + 1 + f.get("more_failures_same_case", 0)
            else:
                self._seen_fail[k] = f
                self.failures.append(f)
        self.keys |= other.keys
        self.trivial += other.trivial
        for g, n in other.groups.items():
            self.group(g, n)
        self.samples.extend(other.samples)


def last_line(exc=None):
    return traceback.format_exc().strip().splitlines()[-1][:300]


def jsonable(o):
    if isinstance(o, dict):
        return {str(k): jsonable(v) for k, v in o.items()}
    if isinstance(o, (list, tuple)):
        return [jsonable(v) for v in o]
    if isinstance(o, np.ndarray):
        return jsonable(o.tolist())
    if isinstance(o, (np.floating,)):
        return float(o)
    if isinstance(o, (np.integer,)):
        return int(o)
    if isinstance(o, (np.bool_,)):
        return bool(o)
    return o


# --------------------------------------------------------------------------- model builders
def _lin2(x, a=0.0, b=1.0):
    return a + b * x


def _pow3(x, a, b, c):
    return a + b * x**c


def _exp3(x, a, b, c):
    return a + b * np.exp(c * x)


def _const1(x, a=1.0):
    return a + 0.0 * x


STRUCTS_2D = ("dnvgl_hs_tz", "omae_hs_tz", "dnvgl_hs_u", "omae_v_hs", "indep2")
STRUCTS_3D = ("chain3", "fork3", "mixed3", "indep3")


def random_spec(rng, struct):
    """JSON-able random parameter set of a model structure (physically sensible ranges)."""
    u = lambda a, b: float(rng.uniform(a, b))  # noqa: E731
    if struct == "dnvgl_hs_tz":
        p = {"hs": [u(1.5, 3.0), u(1.2, 1.8), u(0.3, 1.0)],
             "mu": [u(0.05, 0.7), u(1.0, 1.6), u(0.15, 0.3)],
             "sigma": [u(0.01, 0.07), u(0.1, 0.25), u(-0.4, -0.1)]}
    elif struct == "omae_hs_tz":
        p = {"hs": [u(0.3, 1.0), u(0.7, 1.2), u(1.5, 6.0)],
             "mu": [u(2.0, 4.0), u(4.0, 8.0), 1.0],
             "sigma": [u(0.001, 0.05), u(0.1, 0.3), u(0.1, 0.5)]}
    elif struct == "dnvgl_hs_u":
        p = {"hs": [u(1.5, 3.0), u(1.2, 1.8), u(0.3, 1.0)],
             "alpha": [u(1.5, 3.0), u(2.0, 4.0), u(0.5, 0.9)],
             "beta": [u(1.5, 2.5), u(0.1, 0.3), u(1.0, 1.6)]}
    elif struct == "omae_v_hs":
        # around the published OMAE 2020 V-Hs parameters (so that a fit of the predefined structure to simulated data converges)
        p = {"v": [u(9.0, 11.0), u(2.2, 2.6), u(0.7, 0.85)],
             "alpha": [u(0.35, 0.45), u(0.015, 0.02), u(1.8, 1.95)],
             "beta": [u(0.5, 0.65), u(1.7, 2.1), u(-0.28, -0.22), u(8.0, 9.0)]}
    elif struct == "indep2":
        p = {"d0": [u(1.5, 3.0), u(1.2, 1.8), u(0.0, 1.0)], "d1": [u(0.5, 2.0), u(0.2, 0.6)]}
    elif struct == "chain3":  # conditional_on = [None, 0, 1]
        p = {"d0": [u(1.5, 3.0), u(1.2, 1.8), u(0.3, 1.0)],
             "mu1": [u(0.05, 0.7), u(1.0, 1.6), u(0.15, 0.3)], "sigma1": [u(0.01, 0.07), u(0.1, 0.25), u(-0.4, -0.1)],
             "alpha2": [u(1.0, 2.0), u(0.5, 1.5)], "beta2": [u(1.5, 2.5)]}
    elif struct == "fork3":  # conditional_on = [None, 0, 0]
        p = {"d0": [u(1.5, 3.0), u(1.2, 1.8), u(0.3, 1.0)],
             "mu1": [u(0.05, 0.7), u(1.0, 1.6), u(0.15, 0.3)], "sigma1": [u(0.01, 0.07), u(0.1, 0.25), u(-0.4, -0.1)],
             "alpha2": [u(1.5, 3.0), u(2.0, 4.0), u(0.5, 0.9)], "beta2": [u(1.5, 2.5), u(0.1, 0.3), u(1.0, 1.6)]}
    elif struct == "mixed3":  # conditional_on = [None, None, 1]
        p = {"d0": [u(0.3, 1.0), u(0.7, 1.2), u(1.5, 6.0)], "d1": [u(1.5, 3.0), u(1.2, 1.8), u(0.3, 1.0)],
             "mu2": [u(0.0, 1.0), u(0.5, 1.5)], "sigma2": [u(0.5, 1.5)]}
    elif struct == "indep3":
        p = {"d0": [u(1.5, 3.0), u(1.2, 1.8), u(0.0, 1.0)], "d1": [u(0.5, 2.0), u(0.2, 0.6)], "d2": [u(-1.0, 1.0), u(0.5, 2.0)]}
    elif struct == "signed2":  # wind speed and an air-sea temperature difference: the second variable takes both signs
        p = {"d0": [u(1.5, 3.0), u(1.2, 1.8), u(0.0, 1.0)], "mu1": [u(-2.0, -0.5), u(0.1, 0.4)], "sigma1": [u(0.8, 1.6)]}
    elif struct == "fixfirst2":  # conditional_on = [None, 0]; the FIRST parameter of the conditional variable is fixed, the second dependent
        p = {"d0": [u(1.5, 3.0), u(1.2, 1.8), u(0.3, 1.0)], "mu1": [u(0.6, 1.2)], "sigma1": [u(0.2, 0.4), u(0.1, 0.3)]}
    else:
        raise ValueError(struct)
    return {"struct": struct, "params": p}


def _set(dep, values):
    dep.parameters = dict(zip(dep.parameters.keys(), [float(v) for v in values]))


def build_model(spec):
    """Build a GlobalHierarchicalModel from a JSON-able spec. Returns (model, semantics)."""
    s, p = spec["struct"], spec["params"]
    sem = None
    if s == "dnvgl_hs_tz":
        dd, _, sem = virocon.get_DNVGL_Hs_Tz()
        d = dd[0]["distribution"]
        d.alpha, d.beta, d.gamma = p["hs"]
        _set(dd[1]["parameters"]["mu"], p["mu"])
        _set(dd[1]["parameters"]["sigma"], p["sigma"])
    elif s == "omae_hs_tz":
        dd, _, sem = virocon.get_OMAE2020_Hs_Tz()
        d = dd[0]["distribution"]
        d.alpha, d.beta, d.delta = p["hs"]
        _set(dd[1]["parameters"]["mu"], p["mu"])
        _set(dd[1]["parameters"]["sigma"], p["sigma"])
    elif s == "dnvgl_hs_u":
        dd, _, sem = virocon.get_DNVGL_Hs_U()
        d = dd[0]["distribution"]
        d.alpha, d.beta, d.gamma = p["hs"]
        _set(dd[1]["parameters"]["alpha"], p["alpha"])
        _set(dd[1]["parameters"]["beta"], p["beta"])
    elif s == "omae_v_hs":
        dd, _, sem = virocon.get_OMAE2020_V_Hs()
        d = dd[0]["distribution"]
        d.alpha, d.beta, d.delta = p["v"]
        _set(dd[1]["parameters"]["alpha"], p["alpha"])
        _set(dd[1]["parameters"]["beta"], p["beta"])
    elif s == "indep2":
        dd = [{"distribution": WeibullDistribution(*p["d0"])}, {"distribution": LogNormalDistribution(*p["d1"])}]
    elif s == "chain3":
        mu, sg = DependenceFunction(_pow3), DependenceFunction(_exp3)
        al, be = DependenceFunction(_lin2), DependenceFunction(_const1)
        _set(mu, p["mu1"]); _set(sg, p["sigma1"]); _set(al, p["alpha2"]); _set(be, p["beta2"])  # noqa: E702
        dd = [{"distribution": WeibullDistribution(*p["d0"]), "intervals": WidthOfIntervalSlicer(0.5)},
              {"distribution": LogNormalDistribution(), "conditional_on": 0, "parameters": {"mu": mu, "sigma": sg}},
              {"distribution": WeibullDistribution(f_gamma=0.0), "conditional_on": 1, "parameters": {"alpha": al, "beta": be}}]
    elif s == "fork3":
        mu, sg = DependenceFunction(_pow3), DependenceFunction(_exp3)
        al, be = DependenceFunction(_pow3), DependenceFunction(_pow3)
        _set(mu, p["mu1"]); _set(sg, p["sigma1"]); _set(al, p["alpha2"]); _set(be, p["beta2"])  # noqa: E702
        dd = [{"distribution": WeibullDistribution(*p["d0"]), "intervals": WidthOfIntervalSlicer(0.5)},
              {"distribution": LogNormalDistribution(), "conditional_on": 0, "parameters": {"mu": mu, "sigma": sg}},
              {"distribution": WeibullDistribution(f_gamma=0.0), "conditional_on": 0, "parameters": {"alpha": al, "beta": be}}]
    elif s == "mixed3":
        mu, sg = DependenceFunction(_lin2), DependenceFunction(_const1)
        _set(mu, p["mu2"]); _set(sg, p["sigma2"])  # noqa: E702
        dd = [{"distribution": ExponentiatedWeibullDistribution(*p["d0"])},
              {"distribution": WeibullDistribution(*p["d1"])},
              {"distribution": NormalDistribution(), "conditional_on": 1, "parameters": {"mu": mu, "sigma": sg}}]
    elif s == "signed2":
        mu, sg = DependenceFunction(_lin2), DependenceFunction(_const1)
        _set(mu, p["mu1"]); _set(sg, p["sigma1"])  # noqa: E702
        dd = [{"distribution": WeibullDistribution(*p["d0"])},
              {"distribution": NormalDistribution(), "conditional_on": 0, "parameters": {"mu": mu, "sigma": sg}}]
    elif s == "fixfirst2":
        sg = DependenceFunction(_lin2)
        _set(sg, p["sigma1"])
        dd = [{"distribution": WeibullDistribution(*p["d0"]), "intervals": WidthOfIntervalSlicer(0.5)},
              {"distribution": LogNormalDistribution(f_mu=p["mu1"][0]), "conditional_on": 0, "parameters": {"sigma": sg}}]
    elif s == "indep3":
        dd = [{"distribution": WeibullDistribution(*p["d0"])}, {"distribution": LogNormalDistribution(*p["d1"])},
              {"distribution": NormalDistribution(*p["d2"])}]
    else:
        raise ValueError(s)
    model = GlobalHierarchicalModel(dd)
    if sem is None:
        sem = virocon.plotting.get_default_semantics(model.n_dim)
    return model, sem


# --------------------------------------------------------------------------- structural snapshot
_ATOM = (int, float, complex, str, bytes, bool, type(None), np.generic)


def snapshot(obj, _memo=None, _depth=0, skip_attrs=()):
    """Structural, comparable snapshot of an object graph: values of every attribute / item reachable from
    `obj` (ndarrays by dtype, shape and bytes; functions by qualified name and closure contents)."""
    if _memo is None:
        _memo = {}
    if isinstance(obj, _ATOM):
        if isinstance(obj, float) and obj != obj:
            return ("nan",)
        return (type(obj).__name__, obj if not isinstance(obj, np.generic) else obj.item())
    oid = id(obj)
    if oid in _memo:
        return ("ref", _memo[oid])
    _memo[oid] = len(_memo)
    if _depth > 40:
        return ("deep",)
    rec = functools.partial(snapshot, _memo=_memo, _depth=_depth + 1, skip_attrs=skip_attrs)
    if isinstance(obj, np.ndarray):
        if obj.dtype == object:
            return ("ndarray-object", obj.shape, tuple(rec(v) for v in obj.ravel().tolist()))
        return ("ndarray", str(obj.dtype), obj.shape, obj.tobytes())
    if isinstance(obj, (list, tuple)):
        return (type(obj).__name__, tuple(rec(v) for v in obj))
    if isinstance(obj, (set, frozenset)):
        return (type(obj).__name__, len(obj))
    if isinstance(obj, dict):
        return ("dict", tuple((repr(k), rec(v)) for k, v in obj.items()))
    if isinstance(obj, functools.partial):
        return ("partial", rec(obj.func), rec(obj.args), rec(obj.keywords))
    if isinstance(obj, (types.FunctionType, types.BuiltinFunctionType, types.MethodType, type, types.ModuleType)):
        cl = ()
        if isinstance(obj, types.FunctionType) and obj.__closure__:
            cells = []
            for c in obj.__closure__:
                try:
                    cells.append(rec(c.cell_contents))
                except ValueError:
                    cells.append(("empty-cell",))
            cl = tuple(cells)
        return ("callable", getattr(obj, "__qualname__", repr(type(obj))), cl)
    if isinstance(obj, np.random.Generator):
        return ("Generator", repr(obj.bit_generator.state))
    if hasattr(obj, "__dict__"):
        items = tuple((k, rec(v)) for k, v in sorted(vars(obj).items()) if k not in skip_attrs)
        return ("obj", type(obj).__name__, items)
    return ("opaque", type(obj).__name__, repr(obj)[:200])


def snapshot_diff(a, b, path="$"):
    """first difference between two snapshots as a short string (or None)"""
    if a == b:
        return None
    if isinstance(a, tuple) and isinstance(b, tuple) and len(a) == 4 and len(b) == 4 and a[0] == b[0] == "ndarray":
        if a[1:3] != b[1:3]:
            return f"{path}: ndarray {a[1]}{a[2]} -> {b[1]}{b[2]}"
        try:
            x, y = np.frombuffer(a[3], dtype=a[1]), np.frombuffer(b[3], dtype=b[1])
            idx = np.nonzero(~((x == y) | ((x != x) & (y != y))))[0]
            return f"{path}: ndarray {a[1]}{a[2]}: {len(idx)} element(s) changed, first flat index {int(idx[0])}: {x[idx[0]]!r} -> {y[idx[0]]!r}"
        except Exception:
            return f"{path}: ndarray {a[1]}{a[2]} content changed"
    if type(a) is not type(b) or not isinstance(a, tuple) or len(a) != len(b):
        return f"{path}: {str(a)[:80]} -> {str(b)[:80]}"
    for i, (x, y) in enumerate(zip(a, b)):
        if x != y:
            if isinstance(x, tuple) and isinstance(y, tuple):
                name = path
                if len(x) == 2 and isinstance(x[0], str) and not isinstance(x[1], tuple):
                    return f"{path}: {str(x)[:80]} -> {str(y)[:80]}"
                if len(x) >= 1 and isinstance(x[0], str) and len(x) == 2 and isinstance(x[1], tuple):
                    name = f"{path}.{x[0]}"
                return snapshot_diff(x, y, name if name != path else f"{path}[{i}]")
            return f"{path}[{i}]: {str(x)[:80]} -> {str(y)[:80]}"
    return f"{path}: differs"


def mutable_ids(obj, _memo=None, _depth=0):
    """ids of all mutable objects reachable from obj (dict, list, set, ndarray, instances with __dict__,
    functools.partial); functions are traversed through their closure cells but are not counted themselves
    (nested functions are code, not state), modules and classes are not entered."""
    if _memo is None:
        _memo = {}
    if isinstance(obj, _ATOM) or _depth > 40:
        return _memo
    oid = id(obj)
    if oid in _memo:
        return _memo
    rec = functools.partial(mutable_ids, _memo=_memo, _depth=_depth + 1)
    if isinstance(obj, (type, types.ModuleType, types.BuiltinFunctionType)):
        return _memo
    if isinstance(obj, types.FunctionType):
        _memo[oid] = None  # visited marker, not counted
        for c in obj.__closure__ or ():
            try:
                rec(c.cell_contents)
            except ValueError:
                pass
        return _memo
    if isinstance(obj, types.MethodType):
        rec(obj.__self__)
        return _memo
    if isinstance(obj, np.ndarray):
        _memo[oid] = "ndarray"
        return _memo
    if isinstance(obj, tuple):
        _memo[oid] = None
        for v in obj:
            rec(v)
        return _memo
    if isinstance(obj, (list, set)):
        _memo[oid] = type(obj).__name__
        for v in obj:
            rec(v)
        return _memo
    if isinstance(obj, dict):
        _memo[oid] = "dict"
        for k, v in obj.items():
            rec(k)
            rec(v)
        return _memo
    if isinstance(obj, functools.partial):
        _memo[oid] = "partial"
        rec(obj.func)
        rec(obj.args)
        rec(obj.keywords)
        return _memo
    if hasattr(obj, "__dict__"):
        _memo[oid] = type(obj).__name__
        rec(vars(obj))
        return _memo
    return _memo


def same_result(a, b):
    """bitwise-equal results (arrays with nan == nan, nested tuples/lists)"""
    if isinstance(a, (tuple, list)) and isinstance(b, (tuple, list)):
        return len(a) == len(b) and all(same_result(x, y) for x, y in zip(a, b))
    try:
        aa, bb = np.asarray(a), np.asarray(b)
        if aa.shape != bb.shape:
            return False
        if aa.dtype == object or bb.dtype == object:
            return bool(np.all(aa == bb))
        return bool(np.array_equal(aa, bb, equal_nan=True))
    except Exception:
        return a == b
